"""Deterministic behavioural digest of pyunicorn.eventseries.EventSeries.

Run as: PYTHONPATH=<worktree>/src /venv/bin/python equiv.py
Prints one sha256 digest over results, raised exception types/messages and
emitted warnings for a spread of fixed-seed inputs.
"""
import hashlib
import warnings

import numpy as np

from pyunicorn.eventseries import EventSeries

H = hashlib.sha256()
NREC = [0]


def feed(tag, obj):
    NREC[0] += 1
    H.update(tag.encode())
    if isinstance(obj, (tuple, list)):
        H.update(b"seq%d" % len(obj))
        for k, o in enumerate(obj):
            feed("%s[%d]" % (tag, k), o)
        return
    if isinstance(obj, np.ndarray):
        H.update(str(obj.dtype).encode() + str(obj.shape).encode())
        if obj.dtype == object:
            H.update(repr(obj.tolist()).encode())
        else:
            H.update(np.ascontiguousarray(obj).tobytes())
        return
    if isinstance(obj, np.generic):
        H.update(type(obj).__name__.encode() + obj.tobytes())
        return
    if isinstance(obj, EventSeries):
        H.update(b"EventSeries" + str(obj).encode())
        return
    H.update(type(obj).__name__.encode() + repr(obj).encode())


def run(tag, fun, *args, **kwargs):
    with warnings.catch_warnings(record=True) as rec:
        warnings.simplefilter("always")
        with np.errstate(all="warn"):
            try:
                res = fun(*args, **kwargs)
                feed(tag + ":ok", res)
            except Exception as exc:  # pylint: disable=broad-except
                res = None
                feed(tag + ":exc", type(exc).__name__ + "|" + str(exc))
    feed(tag + ":warn", [w.category.__name__ + "|" + str(w.message)
                         for w in rec])
    return res


def random_series(rng, T, p):
    return (rng.random(T) < p).astype(int)


def main():
    rng = np.random.default_rng(20240416)

    # ---------------------------------------------------------------- pairs
    pairs = []
    for T in (5, 12, 40, 90):
        for p in (0.08, 0.3, 0.6, 0.95):
            pairs.append((random_series(rng, T, p), random_series(rng, T, p)))
    # hand-made edge cases: no / one / two / three events, identical series
    z = np.zeros(10, dtype=int)
    one = z.copy(); one[4] = 1
    two = z.copy(); two[[2, 7]] = 1
    three = z.copy(); three[[1, 4, 8]] = 1
    four = z.copy(); four[[0, 3, 4, 9]] = 1
    full = np.ones(10, dtype=int)
    alt = np.arange(10) % 2
    hand = [z, one, two, three, four, full, alt]
    for a in hand:
        for b in hand:
            pairs.append((a, b))
    # boolean and float typed series
    pairs.append((alt.astype(bool), four.astype(bool)))
    pairs.append((alt.astype(float), four.astype(float)))

    for k, (x, y) in enumerate(pairs):
        T = len(x)
        ts_lin = np.linspace(0.0, T - 1, T)
        ts_irr = np.sort(rng.random(T) * 37.0) - 11.0
        ts_int = np.arange(T) * 3 + 5
        for tsname, ts in (("none", None), ("lin", ts_lin), ("irr", ts_irr),
                           ("int", ts_int)):
            for taumax in (np.inf, 0, 1, 2.5, 7.0):
                for lag in (0.0, 0, 1, -1.5, 2.0):
                    tag = "p%d/%s/%r/%r" % (k, tsname, taumax, lag)
                    run("ES/" + tag, EventSeries.event_synchronization,
                        x, y, ts1=ts, ts2=ts, taumax=taumax, lag=lag)
                    run("ECA/" + tag,
                        EventSeries.event_coincidence_analysis,
                        x, y, taumax, ts1=ts, ts2=ts, lag=lag)
            # different timestamp arrays for both series
            run("ES/mixed/p%d/%s" % (k, tsname),
                EventSeries.event_synchronization, x, y, ts1=ts, ts2=None,
                taumax=3.0, lag=0.5)
            run("ECA/mixed/p%d/%s" % (k, tsname),
                EventSeries.event_coincidence_analysis, x, y, 3.0, ts1=None,
                ts2=ts, lag=0.5)

    # malformed input to the static methods
    bad2d = np.array([[0, 1, 1, 0, 1, 1], [1, 1, 0, 1, 0, 1]])
    for name, (x, y) in {
            "2d": (bad2d, bad2d[::-1]),
            "list": ([0, 1, 1, 0, 1, 1, 0, 1], [1, 1, 0, 1, 0, 1, 1, 0]),
            "str": ("abc", "de"),
            "none": (None, None),
            "lenmis": (np.array([0, 1, 1, 1, 0, 1]),
                       np.array([1, 1, 0, 1, 1, 0, 1, 1, 1]))}.items():
        for ts in (None, np.arange(6.0)):
            run("ES/bad/%s/%r" % (name, ts is None),
                EventSeries.event_synchronization, x, y, ts1=ts, ts2=ts)
            run("ECA/bad/%s/%r" % (name, ts is None),
                EventSeries.event_coincidence_analysis, x, y, 2, ts1=ts,
                ts2=ts)

    # ------------------------------------------------------------- matrices
    mats = []
    for T, N, p in ((30, 2, 0.3), (50, 4, 0.2), (80, 6, 0.35), (25, 3, 0.7),
                    (60, 5, 0.05), (12, 1, 0.5)):
        mats.append((rng.random((T, N)) < p).astype(int))
    m = (rng.random((40, 4)) < 0.3).astype(int)
    m[:, 2] = 0          # variable without events
    m[0, 0] = 1
    mats.append(m)
    mats.append((rng.random((6, 9)) < 0.5).astype(int))   # T < N

    for k, em in enumerate(mats):
        T = em.shape[0]
        for tsname, ts in (("none", None),
                           ("irr", np.cumsum(rng.random(T) + 0.1)),
                           ("short", np.arange(T - 1.0))):
            for taumax, lag in ((np.inf, 0.0), (float("inf"), 1.0),
                                (3, 0), (2.0, 1.0), (0, 0), (5.5, -1.0)):
                tag = "m%d/%s/%r/%r" % (k, tsname, taumax, lag)
                es = run("ctor/" + tag, EventSeries, em, timestamps=ts,
                         taumax=taumax, lag=lag)
                if es is None:
                    continue
                feed("str/" + tag, str(es))
                feed("opts/" + tag, list(es.symmetrization_options))
                feed("get/" + tag, es.get_event_matrix())
                for sym in ("directed", "symmetric", "antisym", "mean",
                            "max", "min", "bogus"):
                    r1 = run("ana/ES/%s/%s" % (tag, sym),
                             es.event_series_analysis, method="ES",
                             symmetrization=sym)
                    r2 = run("ana/ES2/%s/%s" % (tag, sym),
                             es.event_series_analysis, method="ES",
                             symmetrization=sym)
                    feed("alias/%s/%s" % (tag, sym), r1 is r2)
                    for win in ("symmetric", "advanced", "retarded",
                                "bogus"):
                        run("ana/ECA/%s/%s/%s" % (tag, sym, win),
                            es.event_series_analysis, method="ECA",
                            symmetrization=sym, window_type=win)
                run("ana/badmethod/" + tag, es.event_series_analysis,
                    method="XY")
                run("ndimES/" + tag, es._ndim_event_synchronization)
                for win in ("symmetric", "advanced", "retarded", "bogus"):
                    run("ndimECA/%s/%s" % (tag, win),
                        es._ndim_event_coincidence_analysis,
                        window_type=win)
                    if em.shape[1] >= 2:
                        run("rate/%s/%s" % (tag, win),
                            es._eca_coincidence_rate, em[:, 0], em[:, 1],
                            window_type=win)
                        run("ratets/%s/%s" % (tag, win),
                            es._eca_coincidence_rate, em[:, 1], em[:, 0],
                            window_type=win, ts1=np.arange(T) * 2.0,
                            ts2=np.arange(T) * 2.0 + 1)
                if em.shape[1] >= 2:
                    run("rate/empty/" + tag, es._eca_coincidence_rate,
                        np.zeros(T, dtype=int), em[:, 1])
                    run("rate/empty2/" + tag, es._eca_coincidence_rate,
                        em[:, 0], np.zeros(T, dtype=int),
                        window_type="retarded")
        # significance (seeded global RNG; exercises surrogates as well)
        if em.shape[1] in (2, 3):
            es = EventSeries(em, taumax=2.0, lag=0.0)
            for method in ("ES", "ECA"):
                for win in ("advanced", "retarded", "symmetric"):
                    np.random.seed(7)
                    run("sig/m%d/%s/%s" % (k, method, win),
                        es.event_analysis_significance, method=method,
                        surrogate="shuffle", n_surr=6, symmetrization="mean",
                        window_type=win)
            for win in ("advanced", "retarded"):
                run("siga/m%d/%s" % (k, win),
                    es.event_analysis_significance, method="ECA",
                    surrogate="analytic", window_type=win)

    # invalid event matrices
    for name, bad in (("nonbinary", np.arange(12).reshape(6, 2)),
                      ("allzero", np.zeros((5, 2), dtype=int)),
                      ("allone", np.ones((5, 2), dtype=int)),
                      ("float", np.array([[0., 1.], [1., 0.], [1., 1.]])),
                      ("list", [[0, 1], [1, 0]])):
        run("ctor/bad/" + name, EventSeries, bad)
        run("ctor/bad/thr/" + name, EventSeries, bad,
            threshold_method="quantile", threshold_values=0.5,
            threshold_types="above")

    # ------------------------------------------------------ thresholding
    datas = []
    for T, N in ((20, 1), (15, 3), (40, 4), (9, 2)):
        datas.append(rng.normal(size=(T, N)))
    d = np.round(rng.normal(size=(30, 3)), 1)      # many ties
    datas.append(d)
    datas.append(rng.integers(-5, 6, size=(25, 3)))  # integer data
    datas.append(rng.normal(size=(12, 3)).astype(np.float32))
    dn = rng.normal(size=(14, 2)); dn[3, 1] = np.nan
    datas.append(dn)
    datas.append(np.ones((7, 2)))                   # constant data

    def vary(N):
        yield {}
        for meth in ("quantile", "value", "foo", ["quantile"] * N,
                     ["value"] * N, (["quantile", "value"] * N)[:N],
                     ["quantile"] * (N + 1), [["quantile"] * N], ["bar"] * N,
                     None, 3):
            for vals in (None, 0.5, 0.9, 0.1, 0, 1, 1.5, -0.2, "x",
                         [0.3] * N, [0.8] * N, list(np.linspace(0.1, 0.9, N)),
                         [0.5] * (N + 1), [[0.5] * N], ["a"] * N,
                         np.linspace(0.2, 0.7, N), np.arange(N),
                         [None] * N, True):
                for typ in (None, "above", "below", "sideways",
                            ["above"] * N, ["below"] * N,
                            (["above", "below"] * N)[:N],
                            ["above"] * (N + 1), ["up"] * N, [["above"] * N]):
                    yield dict(threshold_method=meth, threshold_values=vals,
                               threshold_types=typ)

    for k, data in enumerate(datas):
        N = data.shape[1]
        for c, kw in enumerate(vary(N)):
            vals_before = kw.get("threshold_values")
            snap = repr(vals_before)
            data_snap = data.copy()
            res = run("mem/d%d/%d" % (k, c), EventSeries.make_event_matrix,
                      data, **kw)
            # inputs must not be modified
            feed("mem/in/d%d/%d" % (k, c),
                 [repr(kw.get("threshold_values")) == snap,
                  bool(np.array_equal(data, data_snap, equal_nan=True))])
            if res is not None and c % 37 == 0:
                run("mem/ctor/d%d/%d" % (k, c), EventSeries, data,
                    taumax=2, **kw)
        # ragged / wrong-shaped data
    run("mem/1d", EventSeries.make_event_matrix, np.arange(5.0),
        threshold_values=0.5, threshold_types="above")
    run("mem/3d", EventSeries.make_event_matrix,
        rng.normal(size=(4, 3, 2)), threshold_values=0.5,
        threshold_types="above")
    run("mem/list", EventSeries.make_event_matrix, [[1.0, 2.0], [3.0, 0.0]],
        threshold_values=0.5, threshold_types="above")
    run("mem/empty", EventSeries.make_event_matrix, np.zeros((0, 2)),
        threshold_values=0.5, threshold_types="above")
    run("mem/novars", EventSeries.make_event_matrix, np.zeros((3, 0)),
        threshold_values=0.5, threshold_types="above")
    # swapped axes in constructor
    wide = rng.normal(size=(3, 20))
    es = run("ctor/wide", EventSeries, wide, threshold_method="quantile",
             threshold_values=0.8, threshold_types="above", taumax=2)
    if es is not None:
        feed("ctor/wide/em", es.get_event_matrix())
        run("ctor/wide/ES", es.event_series_analysis, method="ES",
            symmetrization="max")
        run("ctor/wide/ECA", es.event_series_analysis, method="ECA",
            symmetrization="min", window_type="advanced")

    print("records:", NREC[0])
    print("digest:", H.hexdigest())


if __name__ == "__main__":
    main()
