"""Equivalence digest for twin_1 (CouplingAnalysis MI / information transfer)."""
import hashlib
import io
import contextlib

import numpy as np

from pyunicorn.funcnet import CouplingAnalysis

H = hashlib.sha256()


def feed(tag, obj):
    H.update(tag.encode())
    if isinstance(obj, tuple):
        for k, o in enumerate(obj):
            feed(f"{tag}[{k}]", o)
    elif isinstance(obj, np.ndarray):
        H.update(str(obj.dtype).encode())
        H.update(str(obj.shape).encode())
        H.update(np.ascontiguousarray(obj).tobytes())
    else:
        H.update(repr(obj).encode())


def run(tag, func, *args, **kwargs):
    np.random.seed(12345)
    out = io.StringIO()
    try:
        with contextlib.redirect_stdout(out):
            res = func(*args, **kwargs)
        feed(tag, res)
    except BaseException as e:  # pylint: disable=broad-except
        feed(tag, ("EXC", type(e).__name__, str(e)))
    feed(tag + ":stdout", out.getvalue())
    # consumption of the global random stream must be unchanged as well
    feed(tag + ":rng", np.random.get_state()[1][:8].copy())
    feed(tag + ":rngpos", np.random.get_state()[2])


def datasets():
    rng = np.random.RandomState(7)
    yield "test", CouplingAnalysis.test_data()[:120]
    yield "ar", np.cumsum(rng.randn(90, 3), axis=0) * 0.1 + rng.randn(90, 3)
    yield "f32", rng.rand(64, 5).astype("float32")
    d = rng.randn(80, 3)
    d[:, 1] = 2.0
    yield "const", d
    yield "wide", rng.randn(12, 14)
    d = rng.randn(40, 2)
    d[3, 1] = np.nan
    yield "nan", d
    yield "ints", rng.randint(0, 4, size=(70, 3))
    yield "empty", np.zeros((30, 0))


for name, data in datasets():
    ca = CouplingAnalysis(data)
    before = np.array(ca.data, copy=True)
    for est in ("knn", "binning", "gauss", "foo"):
        for lm in ("max", "all", "none"):
            for tm in (0, 3):
                run(f"mi/{name}/{est}/{lm}/{tm}", ca.mutual_information,
                    tau_max=tm, estimator=est, knn=4, bins=4, lag_mode=lm)
    run(f"mi/{name}/bins3", ca.mutual_information, tau_max=2,
        estimator="binning", bins=3, lag_mode="all")
    run(f"mi/{name}/knnbig", ca.mutual_information, tau_max=1, knn=1000)
    run(f"mi/{name}/neg", ca.mutual_information, tau_max=-1)
    run(f"mi/{name}/huge", ca.mutual_information, tau_max=200,
        estimator="gauss")
    run(f"mi/{name}/flt", ca.mutual_information, tau_max=1.5,
        estimator="gauss")
    for est in ("knn", "gauss", "binning", "foo"):
        for cm in ("ity", "mit", "bad"):
            for lm in ("max", "all", "none"):
                for tm, past in ((0, 1), (2, 2), (3, 1)):
                    run(f"it/{name}/{est}/{cm}/{lm}/{tm}/{past}",
                        ca.information_transfer, tau_max=tm, estimator=est,
                        knn=3, past=past, cond_mode=cm, lag_mode=lm)
    run(f"it/{name}/past0", ca.information_transfer, tau_max=1,
        estimator="gauss", past=0)
    run(f"it/{name}/pastf", ca.information_transfer, tau_max=1,
        estimator="gauss", past=1.0)
    run(f"it/{name}/pastf_bad", ca.information_transfer, tau_max=1,
        estimator="gauss", past=1.0, cond_mode="bad")
    run(f"it/{name}/pasts", ca.information_transfer, tau_max=1,
        estimator="gauss", past="a", cond_mode="mit")
    run(f"it/{name}/pastnp", ca.information_transfer, tau_max=np.int64(1),
        estimator="gauss", past=np.int64(2), cond_mode="mit")
    run(f"it/{name}/huge", ca.information_transfer, tau_max=300,
        estimator="gauss")
    run(f"it/{name}/neg", ca.information_transfer, tau_max=-2)
    run(f"it/{name}/knnbig", ca.information_transfer, knn=1000)
    feed(f"state/{name}", ca.data)
    feed(f"unchanged/{name}", bool(np.array_equal(
        before, ca.data, equal_nan=True)))
    feed(f"plogp/{name}", hasattr(ca, "plogp"))

print(H.hexdigest())
