"""Equivalence digest for twin_3: the C kernel _mutual_information
(climate/_ext/src_numerics.c) called directly through its Cython wrapper and
through MutualInfoClimateNetwork; also checks that the inputs (the anomaly
array handed to the kernel, the cached anomaly of the shared ClimateData) are
left untouched."""
import hashlib
import io
import os
import tempfile
import contextlib

import numpy as np

from pyunicorn.core._ext.types import FIELD
from pyunicorn.core.geo_grid import GeoGrid
from pyunicorn.climate._ext.numerics import mutual_information
from pyunicorn.climate.climate_data import ClimateData
from pyunicorn.climate.mutual_info import MutualInfoClimateNetwork

os.chdir(tempfile.mkdtemp())
H = hashlib.sha256()


def put(tag, val):
    H.update(tag.encode())
    if isinstance(val, np.ndarray):
        H.update(str(val.dtype).encode() + str(val.shape).encode())
        H.update(np.ascontiguousarray(val).tobytes())
    elif isinstance(val, (str, bytes, int, float, bool, tuple, list,
                          type(None), np.generic)):
        H.update(repr(val).encode())
    else:
        H.update(type(val).__name__.encode())


def attempt(tag, fn):
    buf = io.StringIO()
    try:
        with contextlib.redirect_stdout(buf):
            res = fn()
    except Exception as e:  # pylint: disable=broad-except
        put(tag, ("EXC", type(e).__name__, str(e)))
        res = None
    else:
        put(tag, res)
    put(tag + "/out", buf.getvalue())
    return res


# ---- direct kernel calls ----------------------------------------------------
k = 0
for seed in range(6):
    rng = np.random.RandomState(seed)
    for (N, n_samples) in [(1, 1), (1, 7), (2, 1), (2, 5), (3, 40), (6, 10),
                           (9, 64), (12, 200), (0, 5)]:
        kinds = ['normal', 'uniform', 'ties', 'const_row', 'nan']
        for kind in kinds:
            a = rng.randn(N, n_samples)
            if kind == 'uniform':
                a = rng.rand(N, n_samples)
            elif kind == 'ties':
                a = rng.randint(0, 4, size=(N, n_samples)).astype(float)
            elif kind == 'const_row' and N:
                a[0, :] = 0.25
            elif kind == 'nan' and N and n_samples > 1:
                a[-1, 1] = np.nan
            a = np.ascontiguousarray(a, dtype=FIELD)
            if a.size == 0:
                rmin, rmax = 0.0, 1.0
            else:
                rmin = float(np.nanmin(a))
                rmax = float(np.nanmax(a))
            scaling = 1. / (rmax - rmin) if rmax > rmin else 1.0
            for n_bins in (1, 2, 3, 8, 32, 0, -4):
                a0 = a.copy()
                k += 1
                attempt(f"mi/{k}", lambda: mutual_information(
                    a, n_samples, N, n_bins, scaling, rmin))
                # repeated call: same answer, input untouched
                attempt(f"mi2/{k}", lambda: mutual_information(
                    a, n_samples, N, n_bins, scaling, rmin))
                put(f"mi_in/{k}", bool(
                    np.array_equal(a, a0, equal_nan=True)))

# wrong argument types
a = np.zeros((2, 3), dtype=FIELD)
for bad in [lambda: mutual_information(None, 3, 2, 4, 1.0, 0.0),
            lambda: mutual_information(a.astype('float64'), 3, 2, 4, 1., 0.),
            lambda: mutual_information(a.T, 2, 3, 4, 1.0, 0.0),
            lambda: mutual_information(a, 3, 2, 4.5, 1.0, 0.0),
            lambda: mutual_information(a, 3, 2, 4, "x", 0.0)]:
    k += 1
    attempt(f"bad/{k}", bad)

# ---- through the climate network -------------------------------------------


def make_data(seed, T, N, time_cycle, anomalies):
    rng = np.random.RandomState(100 + seed)
    t = np.arange(T)[:, None]
    obs = np.sin(2 * np.pi * t / time_cycle + rng.rand(N)[None, :]) \
        + 0.5 * rng.randn(T, N)
    grid = GeoGrid(np.arange(T, dtype=float), np.linspace(-60., 60., N),
                   np.linspace(0., 300., N), silence_level=2)
    return ClimateData(observable=obs, grid=grid, time_cycle=time_cycle,
                       anomalies=anomalies, silence_level=2)


for seed, (T, N, tc) in enumerate([(48, 5, 12), (60, 8, 12), (30, 4, 5),
                                   (120, 10, 12)]):
    for anomalies in (False, True):
        for winter_only in (False, True):
            data = make_data(seed, T, N, tc, anomalies)
            obs0 = data.observable().copy()
            an = data.anomaly()
            an0 = an.copy()
            tag = f"net/{seed}/{anomalies}/{winter_only}"
            net = attempt(tag, lambda: MutualInfoClimateNetwork(
                data, threshold=0.3, winter_only=winter_only,
                silence_level=2))
            if net is None:
                continue
            put(tag + "/sim", np.asarray(net.similarity_measure()))
            put(tag + "/adj", np.asarray(net.adjacency))
            put(tag + "/an_same_obj", data.anomaly() is an)
            put(tag + "/an_unchanged", bool(np.array_equal(an, an0)))
            put(tag + "/obs_unchanged", bool(
                np.array_equal(data.observable(), obs0)))
            # caller-owned array, several bin numbers
            own = an0.copy()
            for n_bins in (4, 16, 32):
                attempt(tag + f"/own{n_bins}", lambda:
                        net._cython_calculate_mutual_information(
                            own, n_bins=n_bins))
            put(tag + "/own_unchanged", bool(np.array_equal(own, an0)))
            attempt(tag + "/calc", lambda:
                    net.calculate_similarity_measure(own))
            attempt(tag + "/mi_nodump", lambda:
                    net.mutual_information(own, dump=False))
            put(tag + "/own_unchanged2", bool(np.array_equal(own, an0)))

print(H.hexdigest())
