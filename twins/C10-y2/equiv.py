"""Digest of CouplingAnalysis.cross_correlation and its Cython kernels."""
import hashlib
import io
import contextlib
import warnings
import numpy as np
from pyunicorn.funcnet import CouplingAnalysis
from pyunicorn.funcnet._ext.numerics import \
    _cross_correlation_max, _cross_correlation_all

warnings.simplefilter("ignore")
h = hashlib.sha256()


def feed(tag, obj):
    h.update(repr(tag).encode())
    if isinstance(obj, tuple):
        for o in obj:
            feed(tag, o)
    elif isinstance(obj, np.ndarray):
        h.update(str(obj.dtype).encode() + repr(obj.shape).encode())
        h.update(np.ascontiguousarray(obj).tobytes())
    else:
        h.update(repr(obj).encode())


def run(tag, fn):
    out = io.StringIO()
    try:
        with contextlib.redirect_stdout(out), np.errstate(all='ignore'):
            res = fn()
        feed(tag, res)
    except BaseException as e:  # pylint: disable=broad-except
        feed(tag, "EXC:" + type(e).__name__ + ":" + str(e))
    feed(tag, out.getvalue())


def datasets():
    rng = np.random.RandomState(11)
    d1 = rng.randn(80, 5)
    for t in range(3, 80):
        d1[t, 1] += 0.8 * d1[t-1, 0]
        d1[t, 2] -= 0.9 * d1[t-3, 1]
        d1[t, 4] += 0.6 * d1[t-2, 2]
    d2 = rng.rand(30, 2, 3)
    d3 = rng.randn(25, 4)
    d3[:, 2] = -1.0                       # constant -> zero variance
    d4 = np.round(2 * rng.randn(40, 6))   # ties in the lag function
    d5 = np.tile(np.sin(np.arange(36) * np.pi / 3)[:, None], (1, 3))
    d5[:, 1] = np.roll(d5[:, 1], 3)       # exact +-1 ties over lags
    d5[:, 2] = -np.roll(d5[:, 2], 1)
    d6 = rng.randn(4, 7)                  # N > T
    d7 = rng.randn(20, 2)
    d7[3, 0] = np.nan
    d8 = rng.randn(12, 0)
    d9 = (1e3 * rng.randn(50, 3)).astype(np.float32)
    d10 = rng.randint(-3, 4, size=(33, 4))
    return [d1, d2, d3, d4, d5, d6, d7, d8, d9, d10]


for n, data in enumerate(datasets()):
    ca = CouplingAnalysis(data.copy())
    before = ca.data.copy()
    T = data.shape[0]
    for lag_mode in ('max', 'all', 'foo'):
        for tau_max in (0, 1, 2, 5, T - 2, T - 1, T, T + 1, -1):
            run(("cc", n, lag_mode, tau_max),
                lambda: ca.cross_correlation(tau_max=tau_max,
                                             lag_mode=lag_mode))
    run(("cc-default", n), ca.cross_correlation)
    # max and all must tell the same story after symmetrisation
    run(("sym", n), lambda: ca.symmetrize_by_absmax(
        *ca.cross_correlation(tau_max=3)))
    feed(("data", n), ca.data)
    feed(("same", n), bool(np.array_equal(before, ca.data, equal_nan=True)))

# the kernels called directly, including inconsistent sizes
rng = np.random.RandomState(5)
for (L, N, R) in ((1, 3, 10), (4, 3, 10), (3, 1, 6), (2, 4, 1), (3, 2, 0)):
    arr = rng.randn(L, N, R).astype(np.float32)
    keep = arr.copy()
    for fn in (_cross_correlation_max, _cross_correlation_all):
        run(("k", fn.__name__, L, N, R), lambda: fn(arr, N, L - 1, R))
        run(("k-bigN", fn.__name__, L, N, R), lambda: fn(arr, N + 1, L - 1, R))
        run(("k-bigT", fn.__name__, L, N, R), lambda: fn(arr, N, L, R))
        run(("k-bigR", fn.__name__, L, N, R), lambda: fn(arr, N, L - 1, R + 1))
        run(("k-small", fn.__name__, L, N, R),
            lambda: fn(arr, max(N - 1, 0), max(L - 2, 0), max(R - 1, 0)))
        run(("k-neg", fn.__name__, L, N, R), lambda: fn(arr, N, -1, R))
        run(("k-none", fn.__name__, L, N, R), lambda: fn(None, N, L - 1, R))
        run(("k-f64", fn.__name__, L, N, R),
            lambda: fn(arr.astype(np.float64), N, L - 1, R))
    feed(("arr", L, N, R), bool(np.array_equal(arr, keep)))

print(h.hexdigest())
