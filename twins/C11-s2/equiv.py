"""Digest of the cross/internal measures of InteractingNetworks (property C11).

Run as  PYTHONPATH=<worktree>/src /venv/bin/python equiv.py
Prints one sha256 digest; it must be identical on the pristine and on the
refactored tree.
"""
import hashlib
import warnings

import numpy as np

from pyunicorn.core.interacting_networks import InteractingNetworks
from pyunicorn.core._ext.types import ADJ, NODE, DFIELD
from pyunicorn.core._ext.numerics import \
    _cross_transitivity, _cross_local_clustering

warnings.simplefilter("ignore")
np.seterr(all="ignore")

H = hashlib.sha256()
N_ITEMS = [0]
N_EXC = {}


def feed(tag, value):
    """Add one result (array, scalar or exception type) to the digest."""
    N_ITEMS[0] += 1
    if isinstance(value, np.ndarray):
        desc = "%s|%s|%s|C%d|F%d|" % (
            type(value).__name__, value.dtype.str, value.shape,
            value.flags["C_CONTIGUOUS"], value.flags["F_CONTIGUOUS"])
        payload = desc.encode() + np.ascontiguousarray(value).tobytes()
    elif isinstance(value, (np.generic,)):
        payload = ("%s|%s|" % (type(value).__name__, value.dtype.str)
                   ).encode() + value.tobytes()
    elif isinstance(value, float):
        payload = ("float|" + value.hex()).encode()
    else:
        payload = ("%s|%r" % (type(value).__name__, value)).encode()
    H.update(tag.encode() + b"=" + payload + b";")


def call(tag, fun, *args, **kwargs):
    try:
        res = fun(*args, **kwargs)
    except Exception as exc:  # pylint: disable=broad-except
        feed(tag, "EXC:" + type(exc).__name__)
        N_EXC[type(exc).__name__] = N_EXC.get(type(exc).__name__, 0) + 1
        return None
    feed(tag, res)
    return res


def make_net(rng, n, p, directed, weighted=True):
    A = (rng.random((n, n)) < p).astype(np.int8)
    np.fill_diagonal(A, 0)
    if not directed:
        A = np.triu(A, 1)
        A = A + A.T
    net = InteractingNetworks(adjacency=A, directed=directed,
                              node_weights=rng.random(n) + 0.25,
                              silence_level=3)
    if weighted:
        W = rng.random((n, n)) * 3 + 0.1
        if not directed:
            W = np.triu(W, 1)
            W = W + W.T
        net.set_link_attribute("lw", W * A)
    return net


def groups(rng, n):
    """A spread of node group pairs: disjoint, unsorted, overlapping, whole."""
    perm = [int(i) for i in rng.permutation(n)]
    k = max(1, n // 3)
    out = [(perm[:k], perm[k:2 * k + 1]),
           (sorted(perm[:k]), sorted(perm[k:])),
           (perm[k:], perm[:k]),
           (list(range(n)), list(range(n))),
           (perm[:k + 1], perm[k - 1:2 * k]),      # overlapping
           ([perm[0]], perm[1:])]
    return out


PAIR_MEASURES = [
    "cross_adjacency", "cross_adjacency_sparse", "number_cross_links",
    "total_cross_degree", "cross_degree_density", "cross_link_density",
    "cross_global_clustering", "cross_global_clustering_sparse",
    "cross_transitivity", "cross_transitivity_sparse",
    "cross_average_path_length", "average_cross_closeness",
    "global_efficiency", "cross_degree", "cross_indegree", "cross_outdegree",
    "cross_local_clustering", "cross_local_clustering_sparse",
    "cross_closeness", "cross_betweenness", "local_efficiency",
    "cross_path_lengths",
    "nsi_cross_degree", "nsi_cross_mean_degree", "nsi_cross_local_clustering",
    "nsi_cross_closeness_centrality", "nsi_cross_global_clustering",
    "nsi_cross_betweenness", "nsi_cross_edge_density",
    "nsi_cross_transitivity", "nsi_cross_average_path_length"]
PAIR_WEIGHTED = [
    "cross_average_path_length", "average_cross_closeness",
    "global_efficiency", "cross_degree", "cross_indegree", "cross_outdegree",
    "cross_closeness", "local_efficiency", "cross_path_lengths"]
SINGLE_MEASURES = [
    "internal_adjacency", "number_internal_links", "internal_link_density",
    "internal_global_clustering", "internal_average_path_length",
    "internal_degree", "internal_indegree", "internal_outdegree",
    "internal_closeness", "internal_betweenness", "internal_path_lengths",
    "nsi_internal_degree", "nsi_internal_closeness_centrality",
    "nsi_internal_local_clustering"]
SINGLE_WEIGHTED = [
    "internal_average_path_length", "internal_degree", "internal_indegree",
    "internal_outdegree", "internal_closeness", "internal_path_lengths"]


def exercise(net, tag, pairs):
    for gi, (g1, g2) in enumerate(pairs):
        t = "%s/g%d" % (tag, gi)
        for name in PAIR_MEASURES:
            call(t + "/" + name, getattr(net, name), list(g1), list(g2))
        for name in PAIR_WEIGHTED:
            call(t + "/w/" + name, getattr(net, name), list(g1), list(g2),
                 link_attribute="lw")
        call(t + "/cross_link_attribute", net.cross_link_attribute,
             "lw", list(g1), list(g2))
        for name in SINGLE_MEASURES:
            call(t + "/" + name, getattr(net, name), list(g1))
        for name in SINGLE_WEIGHTED:
            call(t + "/w/" + name, getattr(net, name), list(g1),
                 link_attribute="lw")
        call(t + "/internal_link_attribute", net.internal_link_attribute,
             "lw", list(g1))
        sub = call(t + "/subnetwork", lambda g=g1: net.subnetwork(
            list(g)).adjacency)
        # node lists given as arrays / ranges / tuples
        call(t + "/arr/internal_adjacency", net.internal_adjacency,
             np.array(g1, dtype=np.int64))
        call(t + "/arr/internal_link_attribute", net.internal_link_attribute,
             "lw", tuple(g1))
        call(t + "/arr/cross_local_clustering", net.cross_local_clustering,
             np.array(g1), np.array(g2))
        call(t + "/arr/cross_transitivity", net.cross_transitivity,
             tuple(g1), np.array(g2, dtype=np.int16))
        del sub


def main():
    rng = np.random.default_rng(20240611)
    nets = [("small", InteractingNetworks.SmallTestNetwork()),
            ("smalldir", InteractingNetworks.SmallDirectedTestNetwork())]
    for n, p, directed in [(7, 0.5, False), (9, 0.3, True), (12, 0.6, False),
                           (12, 0.15, False), (14, 0.45, True),
                           (20, 0.35, False), (23, 0.2, True),
                           (31, 0.5, False)]:
        nets.append(("n%d_%s_%s" % (n, p, "d" if directed else "u"),
                     make_net(rng, n, p, directed)))
    for tag, net in nets:
        net.silence_level = 3
        if tag.startswith("small"):
            if tag == "small":
                net.set_link_attribute("lw", net.link_attribute(
                    "link_weights"))
            else:
                net.set_link_attribute("lw", net.adjacency * 1.5)
        exercise(net, tag, groups(rng, net.N))

    # ---- odd / erroneous arguments --------------------------------------
    net = nets[2][1]
    odd = [([], [1, 2]), ([1, 2], []), ([], []), ([0, 0, 3], [1, 1]),
           ([0, 1], [5, 99]), ([99], [0, 1]), ([-1, 2], [0, 3]),
           ([0, 2], [-7, 1]), ([1.5, 2], [0]), ("ab", [0]), (3, [0, 1]),
           ([[0, 1], [2, 3]], [4]), (range(3), range(3, 6)),
           (np.array([True, False] * 3 + [True]), [1, 2])]
    for oi, (g1, g2) in enumerate(odd):
        t = "odd%d" % oi
        for name in PAIR_MEASURES:
            if "betweenness" in name:
                continue
            call(t + "/" + name, getattr(net, name), g1, g2)
        for name in SINGLE_MEASURES:
            if "betweenness" in name:
                continue
            call(t + "/" + name, getattr(net, name), g1)
        call(t + "/internal_link_attribute", net.internal_link_attribute,
             "lw", g1)
        call(t + "/cross_link_attribute", net.cross_link_attribute,
             "lw", g1, g2)
        call(t + "/w/cross_closeness", net.cross_closeness, g1, g2, "lw")
    call("badattr/internal", net.internal_link_attribute, "nope", [0, 1, 2])
    call("badattr/cross", net.cross_link_attribute, "nope", [0, 1], [2])

    # ---- the compiled kernels, called directly ---------------------------
    for ki in range(12):
        n = int(rng.integers(1, 16))
        directed = bool(ki % 2)
        A = (rng.random((n, n)) < 0.5).astype(ADJ)
        if not directed:
            A = np.triu(A, 1)
            A = (A + A.T).astype(ADJ)
        if ki % 3 == 0:
            np.fill_diagonal(A, 1)
        n1 = rng.integers(0, n, size=int(rng.integers(0, n + 1))).astype(NODE)
        n2 = rng.integers(0, n, size=int(rng.integers(0, n + 2))).astype(NODE)
        call("k%d/ct" % ki, _cross_transitivity, A, n1, n2)
        norm = rng.integers(0, 4, size=len(n1)).astype(DFIELD)
        out = np.full(len(n1), -1.0, dtype=DFIELD)
        call("k%d/clc" % ki, _cross_local_clustering, A, norm, n1, n2, out)
        feed("k%d/clc/out" % ki, out)
    A = np.ones((4, 4), dtype=ADJ)
    bad = [(np.array([0, 4], NODE), np.array([1, 2], NODE)),
           (np.array([0, 1], NODE), np.array([1, 7], NODE)),
           (np.array([-1], NODE), np.array([1, 2], NODE)),
           (np.array([0, 1], NODE), np.array([2, -2, 3], NODE)),
           (np.array([], NODE), np.array([9], NODE)),
           (np.array([9], NODE), np.array([], NODE))]
    for bi, (n1, n2) in enumerate(bad):
        call("bad%d/ct" % bi, _cross_transitivity, A, n1, n2)
        out = np.full(len(n1), -1.0, dtype=DFIELD)
        call("bad%d/clc" % bi, _cross_local_clustering, A,
             np.ones(len(n1), DFIELD), n1, n2, out)
        feed("bad%d/clc/out" % bi, out)
        out = np.full(len(n1), -1.0, dtype=DFIELD)
        call("bad%d/clc0" % bi, _cross_local_clustering, A,
             np.zeros(len(n1), DFIELD), n1, n2, out)
        feed("bad%d/clc0/out" % bi, out)
    # norm / output shorter than nodes1, non-square A, wrong dtypes
    call("short/norm", _cross_local_clustering, A, np.ones(1, DFIELD),
         np.array([0, 1], NODE), np.array([2, 3], NODE), np.zeros(2, DFIELD))
    call("short/out", _cross_local_clustering, A, np.ones(2, DFIELD),
         np.array([0, 1], NODE), np.array([2, 3], NODE), np.zeros(1, DFIELD))
    R = np.ones((2, 5), dtype=ADJ)
    call("rect/ct", _cross_transitivity, R, np.array([0, 1], NODE),
         np.array([3, 4, 1], NODE))
    call("rect/ct2", _cross_transitivity, R, np.array([0, 1], NODE),
         np.array([0, 1], NODE))
    call("dtype/ct", _cross_transitivity, A.astype(np.int64),
         np.array([0], NODE), np.array([1], NODE))
    call("none/ct", _cross_transitivity, None, np.array([0], NODE),
         np.array([1], NODE))

    # ---- the general path length helpers, called directly ----------------
    for hi in range(10):
        shape = (int(rng.integers(0, 7)), int(rng.integers(0, 7)))
        P = rng.integers(0, 5, size=shape).astype(float)
        P[rng.random(shape) < 0.3] = np.inf
        if hi % 4 == 1:
            P[rng.random(shape) < 0.2] = -np.inf
        if hi % 4 == 2:
            P[rng.random(shape) < 0.2] = np.nan
        if hi % 2:
            P = np.asfortranarray(P)
        for internal in (False, True):
            Q = P.copy(order="K")
            call("h%d/apl/%d" % (hi, internal),
                 InteractingNetworks._calculate_general_average_path_length,
                 Q, internal=internal)
            feed("h%d/apl/%d/arg" % (hi, internal), Q)
            Q = P.copy(order="K")
            call("h%d/clo/%d" % (hi, internal),
                 net._calculate_general_closeness, Q, internal=internal)
            feed("h%d/clo/%d/arg" % (hi, internal), Q)
    Pi = np.arange(6).reshape(2, 3)
    call("hint/apl", InteractingNetworks._calculate_general_average_path_length,
         Pi)
    call("hint/clo", net._calculate_general_closeness, Pi)
    call("h1d/apl", InteractingNetworks._calculate_general_average_path_length,
         np.ones(3))
    call("h1d/clo", net._calculate_general_closeness, np.ones(3))
    call("hlist/apl",
         InteractingNetworks._calculate_general_average_path_length,
         [[1.0, 2.0]])

    print("items:", N_ITEMS[0], "exceptions:", sorted(N_EXC.items()))
    print("digest:", H.hexdigest())


if __name__ == "__main__":
    main()
