"""Equivalence digest for property C11 (cross/internal measures of
interacting networks).  Run as  PYTHONPATH=<worktree>/src python equiv.py"""
import hashlib
import io
import contextlib

import numpy as np

from pyunicorn.core.network import Network
from pyunicorn.core.interacting_networks import InteractingNetworks as IN

H = hashlib.sha256()
NREC = [0]


def rec(tag, value):
    NREC[0] += 1
    H.update(tag.encode())
    if isinstance(value, np.ndarray):
        H.update(str(value.dtype).encode())
        H.update(repr(value.shape).encode())
        H.update(repr((value.flags.c_contiguous,
                       value.flags.f_contiguous)).encode())
        if value.dtype == object:
            H.update(repr(value.tolist()).encode())
        else:
            H.update(np.ascontiguousarray(value).tobytes())
    else:
        H.update(type(value).__name__.encode())
        H.update(repr(value).encode())


def call(tag, f, *args, **kw):
    try:
        with contextlib.redirect_stdout(io.StringIO()), \
                np.errstate(all="ignore"):
            res = f(*args, **kw)
    except BaseException as exc:  # pylint: disable=broad-except
        res = "EXC:" + type(exc).__name__
    if isinstance(res, tuple):
        for i, r in enumerate(res):
            rec(f"{tag}[{i}]", r)
    else:
        rec(tag, res)


def make(seed, N, p, directed, weights_kind="float"):
    rng = np.random.RandomState(seed)
    A = (rng.rand(N, N) < p).astype(np.int8)
    np.fill_diagonal(A, 0)
    if not directed:
        A = np.triu(A, 1)
        A = A + A.T
    nw = rng.rand(N) + 0.25
    net = IN(adjacency=A, directed=directed, node_weights=nw,
             silence_level=3)
    W = rng.rand(N, N) * 5 + 0.1
    if not directed:
        W = (W + W.T) / 2
    if weights_kind == "int":
        W = np.floor(W).astype(int) + 1
    net.set_link_attribute("w", W)
    return net, rng


def groups(rng, N):
    perm = rng.permutation(N)
    k = rng.randint(1, N - 1)
    l1 = [int(x) for x in perm[:k]]
    l2 = [int(x) for x in perm[k:]]
    yield "perm", l1, l2
    yield "sorted", sorted(l1), sorted(l2)
    half = N // 2
    yield "halves", list(range(half)), list(range(half, N))
    yield "whole", list(range(N)), list(range(N))
    yield "small", l1[:2], l2[:3]
    yield "overlap", l1 + l2[:1], l2


def state(net):
    return (net._mut_la, net._mut_nw, net._mut_A,
            sorted(net.graph.es.attributes()),
            net.graph.ecount())


def exercise(label, net, rng):
    N = net.N
    st0 = state(net)
    call(label + "/la", net.link_attribute, "w")
    call(label + "/la_missing", net.link_attribute, "nope")
    call(label + "/ala", net.average_link_attribute, "w")
    call(label + "/deg_w", net.degree, "w")
    call(label + "/indeg_w", net.indegree, "w")
    call(label + "/outdeg_w", net.outdegree, "w")
    for gname, l1, l2 in groups(rng, N):
        t = f"{label}/{gname}"
        call(t + "/ia1", net.internal_adjacency, l1)
        call(t + "/ia2", net.internal_adjacency, l2)
        call(t + "/ca", net.cross_adjacency, l1, l2)
        call(t + "/ca_r", net.cross_adjacency, l2, l1)
        call(t + "/cas", net.cross_adjacency_sparse, l1, l2)
        call(t + "/ila1", net.internal_link_attribute, "w", l1)
        call(t + "/ila2", net.internal_link_attribute, "w", l2)
        call(t + "/ila_missing", net.internal_link_attribute, "nope", l1)
        call(t + "/cla", net.cross_link_attribute, "w", l1, l2)
        call(t + "/cla_r", net.cross_link_attribute, "w", l2, l1)
        call(t + "/cla_missing", net.cross_link_attribute, "nope", l1, l2)
        call(t + "/ipl", net.internal_path_lengths, l1)
        call(t + "/ipl_w", net.internal_path_lengths, l2, "w")
        call(t + "/cpl", net.cross_path_lengths, l1, l2)
        call(t + "/cpl_w", net.cross_path_lengths, l1, l2, "w")
        call(t + "/sub", lambda: net.subnetwork(l1).adjacency)
        for meth in ("number_cross_links", "total_cross_degree",
                     "cross_degree_density", "cross_link_density",
                     "cross_global_clustering",
                     "cross_global_clustering_sparse",
                     "cross_transitivity", "cross_transitivity_sparse",
                     "cross_local_clustering",
                     "cross_local_clustering_sparse",
                     "cross_degree", "cross_indegree", "cross_outdegree",
                     "cross_average_path_length", "average_cross_closeness",
                     "global_efficiency", "cross_closeness",
                     "local_efficiency", "cross_betweenness",
                     "nsi_cross_degree", "nsi_cross_mean_degree",
                     "nsi_cross_local_clustering",
                     "nsi_cross_closeness_centrality",
                     "nsi_cross_global_clustering",
                     "nsi_cross_edge_density", "nsi_cross_transitivity",
                     "nsi_cross_average_path_length"):
            call(f"{t}/{meth}", getattr(net, meth), l1, l2)
            call(f"{t}/{meth}_r", getattr(net, meth), l2, l1)
        for meth in ("cross_degree", "cross_indegree", "cross_outdegree",
                     "cross_average_path_length", "cross_closeness",
                     "global_efficiency", "local_efficiency",
                     "average_cross_closeness"):
            call(f"{t}/{meth}_w", getattr(net, meth), l1, l2, "w")
        for meth in ("number_internal_links", "internal_link_density",
                     "internal_global_clustering", "internal_degree",
                     "internal_indegree", "internal_outdegree",
                     "internal_average_path_length", "internal_closeness",
                     "internal_betweenness", "nsi_internal_degree",
                     "nsi_internal_closeness_centrality",
                     "nsi_internal_local_clustering"):
            call(f"{t}/{meth}1", getattr(net, meth), l1)
            call(f"{t}/{meth}2", getattr(net, meth), l2)
        for meth in ("internal_degree", "internal_indegree",
                     "internal_outdegree", "internal_average_path_length",
                     "internal_closeness"):
            call(f"{t}/{meth}_w", getattr(net, meth), l1, "w")
    #  odd node lists
    arr = np.array([N - 1, 0, 2])
    odd = [("tuple", (2, 0, 1), (N - 1, 3)),
           ("nparr", arr, np.array([1, 3])),
           ("dup", [1, 1, 2], [0, 3]),
           ("empty", [], [0, 1]),
           ("oob", [0, N + 3], [1, 2]),
           ("neg", [-1, 0], [1, 2]),
           ("bool", [True, False, True], [1, 2]),
           ("float", [0.0, 2.0], [1, 3])]
    for gname, l1, l2 in odd:
        t = f"{label}/odd-{gname}"
        call(t + "/ia", net.internal_adjacency, l1)
        call(t + "/ca", net.cross_adjacency, l1, l2)
        call(t + "/cas", net.cross_adjacency_sparse, l1, l2)
        call(t + "/ila", net.internal_link_attribute, "w", l1)
        call(t + "/cla", net.cross_link_attribute, "w", l1, l2)
        call(t + "/ipl", net.internal_path_lengths, l1)
        call(t + "/cpl", net.cross_path_lengths, l1, l2)
        call(t + "/ct", net.cross_transitivity, l1, l2)
        call(t + "/clc", net.cross_local_clustering, l1, l2)
        call(t + "/nsict", net.nsi_cross_transitivity, l1, l2)
        call(t + "/nsiclc", net.nsi_cross_local_clustering, l1, l2)
    rec(label + "/state", repr((st0, state(net))))
    #  result must not alias internal state
    W = net.link_attribute("w")
    W[:] = -7
    call(label + "/la_again", net.link_attribute, "w")
    C = net.cross_adjacency([0, 1], [2, 3])
    C[:] = 9
    I = net.internal_adjacency([0, 1, 2])
    I[:] = 9
    call(label + "/adj_after", lambda: net.adjacency)
    call(label + "/sp_after", lambda: net.sp_A.toarray())


def main():
    cases = [(1, 7, 0.5, False, "float"), (2, 9, 0.4, True, "float"),
             (3, 12, 0.3, False, "int"), (4, 12, 0.6, True, "int"),
             (5, 15, 0.25, False, "float"), (6, 6, 0.9, False, "float"),
             (7, 8, 0.0, False, "float"), (8, 8, 0.0, True, "float"),
             (9, 10, 1.0, True, "float")]
    for seed, N, p, directed, kind in cases:
        net, rng = make(seed, N, p, directed, kind)
        exercise(f"s{seed}", net, rng)

    #  built-in test networks
    for name, net in (("small", IN.SmallTestNetwork()),
                      ("smalldir", IN.SmallDirectedTestNetwork())):
        call(name + "/la", net.link_attribute, "link_weights")
        for l1, l2 in (([1, 2, 3], [0, 4]), ([0, 3, 5], [1, 2, 4]),
                       ([5, 0, 3], [4, 1, 2]), ([2], [1, 3, 4])):
            call(name + "/ila", net.internal_link_attribute,
                 "link_weights", l1)
            call(name + "/cla", net.cross_link_attribute,
                 "link_weights", l1, l2)
            call(name + "/ia", net.internal_adjacency, l1)
            call(name + "/ca", net.cross_adjacency, l1, l2)
            call(name + "/ct", net.cross_transitivity, l1, l2)
            call(name + "/clc", net.cross_local_clustering, l1, l2)

    #  multi-edges, self-loops and non-float attributes set through igraph
    for directed in (False, True):
        net, rng = make(21 + directed, 8, 0.4, directed)
        net.graph.add_edges([(0, 1), (1, 0), (0, 1), (2, 2), (5, 3), (3, 5)])
        net.graph.es["w"] = [float(i) + 0.5 for i in
                             range(net.graph.ecount())]
        net.graph.es["s"] = ["x"] * net.graph.ecount()
        net.graph.es["n"] = [None] * net.graph.ecount()
        net.graph.es["b"] = [bool(i % 2) for i in range(net.graph.ecount())]
        net.graph.es["l"] = [[1.0]] * net.graph.ecount()
        t = f"multi{int(directed)}"
        for attr in ("w", "s", "n", "b", "l", "zz"):
            call(f"{t}/la_{attr}", Network.link_attribute, net, attr)
            call(f"{t}/ila_{attr}", net.internal_link_attribute, attr,
                 [5, 0, 1, 2, 3])
            call(f"{t}/cla_{attr}", net.cross_link_attribute, attr,
                 [5, 0, 1], [2, 3])
        call(t + "/ia", net.internal_adjacency, [5, 0, 1, 2, 3])

    #  plain Network (base class implementation of link_attribute)
    for seed, directed in ((31, False), (32, True)):
        rng = np.random.RandomState(seed)
        A = (rng.rand(11, 11) < 0.35).astype(int)
        np.fill_diagonal(A, 0)
        if not directed:
            A = np.triu(A, 1)
            A = A + A.T
        net = Network(adjacency=A, directed=directed, silence_level=3)
        call(f"nw{seed}/la_none", net.link_attribute, "w")
        W = rng.rand(11, 11)
        net.set_link_attribute("w", W)
        call(f"nw{seed}/la", net.link_attribute, "w")
        call(f"nw{seed}/ala", net.average_link_attribute, "w")
        call(f"nw{seed}/pl", net.path_lengths, "w")
        net.del_link_attribute("w")
        call(f"nw{seed}/la_deleted", net.link_attribute, "w")
        #  InteractingNetworks methods applied to a plain Network instance
        net.set_link_attribute("w", W)
        l1, l2 = [7, 0, 3], [10, 2, 1, 5]
        t = f"nw{seed}/unbound"
        call(t + "/ia", IN.internal_adjacency, net, l1)
        call(t + "/ca", IN.cross_adjacency, net, l1, l2)
        call(t + "/cas", IN.cross_adjacency_sparse, net, l1, l2)
        call(t + "/ila", IN.internal_link_attribute, net, "w", l1)
        call(t + "/cla", IN.cross_link_attribute, net, "w", l1, l2)
        call(t + "/ipl", IN.internal_path_lengths, net, l1, "w")
        call(t + "/cpl", IN.cross_path_lengths, net, l1, l2)
        call(t + "/ct", IN.cross_transitivity, net, l1, l2)
        call(t + "/cts", IN.cross_transitivity_sparse, net, l1, l2)
        call(t + "/clc", IN.cross_local_clustering, net, l1, l2)
        call(t + "/clcs", IN.cross_local_clustering_sparse, net, l1, l2)
        call(t + "/nsict", IN.nsi_cross_transitivity, net, l1, l2)
        call(t + "/nsiclc", IN.nsi_cross_local_clustering, net, l1, l2)
        call(t + "/none", IN.cross_adjacency, net, l1, None)
        call(t + "/none2", IN.internal_path_lengths, net, None)

    #  compiled kernels called directly, including irregular arguments
    from pyunicorn.core._ext.types import to_cy, ADJ, NODE, DFIELD, DWEIGHT
    from pyunicorn.core._ext import numerics as nm
    for seed in (41, 42, 43, 44):
        rng = np.random.RandomState(seed)
        for shape in ((9, 9), (5, 9), (9, 5)):
            A = to_cy((rng.rand(*shape) < 0.6).astype(int), ADJ)
            n1 = np.array(rng.permutation(9)[:4], dtype=NODE)
            n2 = np.array(rng.permutation(9)[:5], dtype=NODE)
            w = to_cy(rng.rand(9) + 0.1, DWEIGHT)
            t = f"kern{seed}/{shape}"
            call(t + "/ct", nm._cross_transitivity, A, n1, n2)
            call(t + "/nsict", nm._nsi_cross_transitivity, A, n1, n2, w)
            for normlen in (4, 2):
                norm = to_cy(rng.randint(0, 3, normlen).astype(float), DFIELD)
                norm[0] = np.nan
                cc = np.zeros(4, dtype=DFIELD)
                call(t + f"/clc{normlen}", nm._cross_local_clustering,
                     A, norm, n1, n2, cc)
                rec(t + f"/clc{normlen}_out", cc)
                rec(t + f"/clc{normlen}_norm", norm)
            #  output aliased with the normalisation
            norm = to_cy(rng.randint(0, 3, 4).astype(float), DFIELD)
            call(t + "/clc_alias", nm._cross_local_clustering,
                 A, norm, n1, n2, norm)
            rec(t + "/clc_alias_out", norm)
            for cclen in (4, 3):
                nsi_cc = np.zeros(cclen, dtype=DFIELD)
                call(t + f"/nsiclc{cclen}", nm._nsi_cross_local_clustering,
                     A, nsi_cc, n1, n2, w)
                rec(t + f"/nsiclc{cclen}_out", nsi_cc)
            #  out-of-range and negative node indices
            bad = n2.copy()
            bad[2] = 11
            neg = n2.copy()
            neg[1] = -1
            for bname, b in (("bad", bad), ("neg", neg)):
                call(t + f"/ct_{bname}", nm._cross_transitivity, A, n1, b)
                call(t + f"/nsict_{bname}", nm._nsi_cross_transitivity,
                     A, n1, b, w)
                cc = np.zeros(4, dtype=DFIELD)
                call(t + f"/clc_{bname}", nm._cross_local_clustering,
                     A, np.ones(4, dtype=DFIELD), n1, b, cc)
                rec(t + f"/clc_{bname}_out", cc)
                nsi_cc = np.zeros(4, dtype=DFIELD)
                call(t + f"/nsiclc_{bname}", nm._nsi_cross_local_clustering,
                     A, nsi_cc, n1, b, w)
                rec(t + f"/nsiclc_{bname}_out", nsi_cc)
        empty = np.array([], dtype=NODE)
        A = to_cy((rng.rand(9, 9) < 0.6).astype(int), ADJ)
        call(f"kern{seed}/ct_empty", nm._cross_transitivity, A, empty, n2)
        call(f"kern{seed}/ct_empty2", nm._cross_transitivity, A, n1, empty)
        call(f"kern{seed}/nsict_empty", nm._nsi_cross_transitivity,
             A, n1, empty, w)

    print(NREC[0], H.hexdigest())


if __name__ == "__main__":
    main()
