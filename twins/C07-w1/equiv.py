"""Equivalence digest for the JointRecurrencePlot setters."""
import hashlib
import io
import contextlib

import numpy as np

from pyunicorn.timeseries import JointRecurrencePlot, JointRecurrenceNetwork

H = hashlib.sha256()


def put(tag, obj):
    H.update(tag.encode())
    if isinstance(obj, np.ndarray):
        H.update(str(obj.dtype).encode())
        H.update(str(obj.shape).encode())
        H.update(np.ascontiguousarray(obj).tobytes())
    else:
        H.update(repr(obj).encode())


def state(tag, jrp):
    put(tag + ".JR", jrp.JR)
    put(tag + ".N", jrp.N)
    put(tag + ".emb", jrp.embedding)
    put(tag + ".mut", jrp._mut_embedding)
    put(tag + ".R", jrp.R)
    put(tag + ".rm", jrp.recurrence_matrix())
    put(tag + ".mv", jrp.missing_values)


def attempt(tag, fn):
    out = io.StringIO()
    try:
        with contextlib.redirect_stdout(out):
            res = fn()
    except BaseException as e:  # noqa
        put(tag + ".exc", type(e).__name__)
        res = None
    put(tag + ".out", out.getvalue())
    return res


rng = np.random.RandomState(20240707)
metrics = ("manhattan", "euclidean", "supremum")
case = 0
for n in (1, 2, 7, 31, 60):
    for d in (1, 2, 3):
        x = rng.standard_normal((n, d))
        y = rng.standard_normal((n, d)) * 1.7 + 0.3
        if d == 1 and n > 2:
            x = x[:, 0]
            y = y[:, 0]
        for lag in (0, 1, -1, 3, -4, n, -n, n + 1, -n - 1):
            for mi, mx in enumerate(metrics):
                my = metrics[(mi + case) % 3]
                case += 1
                tag = f"c{case}"
                kw = dict(metric=(mx, my), lag=lag, silence_level=case % 3,
                          normalize=bool(case % 2))
                if d == 1 and n > 12 and case % 4 == 0:
                    kw.update(dim=(2, 3), tau=(2, 1))
                j = attempt(tag + "t", lambda: JointRecurrencePlot(
                    x, y, threshold=(0.9, 1.4), **kw))
                if j is not None:
                    state(tag + "t", j)
                    #  re-set several times, interleaved
                    attempt(tag + "s1", lambda: j.set_fixed_recurrence_rate(
                        (0.2, 0.35)))
                    state(tag + "s1", j)
                    attempt(tag + "s2", lambda: j.set_fixed_threshold_std(
                        (0.5, 0.25)))
                    state(tag + "s2", j)
                    attempt(tag + "s3", lambda: j.set_fixed_threshold(
                        (0.3, 2.0)))
                    state(tag + "s3", j)
                    attempt(tag + "q", lambda: put(tag + "q", (
                        j.recurrence_rate(), j.determinism(),
                        j.laminarity(), j.max_diaglength())))
                j = attempt(tag + "r", lambda: JointRecurrencePlot(
                    x, y, recurrence_rate=(0.1, 0.6), **kw))
                if j is not None:
                    state(tag + "r", j)
                j = attempt(tag + "d", lambda: JointRecurrencePlot(
                    x, y, threshold_std=(0.4, 0.8), **kw))
                if j is not None:
                    state(tag + "d", j)

#  error paths and odd arguments
x = rng.standard_normal((20, 2))
y = rng.standard_normal((20, 2))
base = JointRecurrencePlot(x, y, threshold=(1., 1.), silence_level=2)
for k, bad in enumerate([(0.5,), 0.5, None, (), ("a", "b"), (0.5, None),
                         (np.nan, 0.5), [0.2, 0.3, 0.4], (1.5, 0.2),
                         (-0.1, 0.2), np.array([0.3, 0.4])]):
    for name in ("set_fixed_threshold", "set_fixed_recurrence_rate",
                 "set_fixed_threshold_std"):
        tag = f"bad{k}{name}"
        attempt(tag, lambda: getattr(base, name)(bad))
        state(tag, base)

#  inconsistent sub-series lengths after manual tampering
for k, (nx, ny) in enumerate([(20, 15), (15, 20), (20, 20), (1, 20)]):
    j = JointRecurrencePlot(x, y, threshold=(1., 1.), silence_level=2, lag=2)
    j.x_embedded = j.x_embedded[:nx]
    j.y_embedded = j.y_embedded[:ny]
    for name in ("set_fixed_threshold", "set_fixed_recurrence_rate"):
        tag = f"tamper{k}{name}"
        attempt(tag, lambda: getattr(j, name)((0.5, 0.5)))
        state(tag, j)
    j.metric = ("euclidean",)
    attempt(f"tamper{k}m", lambda: j.set_fixed_threshold((0.5, 0.5)))
    state(f"tamper{k}m", j)
    del j.lag
    j.metric = ("euclidean", "manhattan")
    attempt(f"tamper{k}l", lambda: j.set_fixed_recurrence_rate((0.5, 0.5)))
    state(f"tamper{k}l", j)

#  constructor errors
attempt("len", lambda: JointRecurrencePlot(x, y[:10], threshold=(1., 1.)))
attempt("none", lambda: JointRecurrencePlot(x, y))
attempt("lag", lambda: JointRecurrencePlot(x, y, threshold=(1., 1.), lag=21))

#  joint recurrence network on top
for lag in (0, 2, -3):
    for kw in (dict(threshold=(0.8, 1.1)), dict(recurrence_rate=(0.2, 0.3)),
               dict(threshold_std=(0.6, 0.6))):
        tag = f"jrn{lag}{sorted(kw)}"
        n = attempt(tag, lambda: JointRecurrenceNetwork(
            x, y, lag=lag, silence_level=2, **kw))
        if n is not None:
            state(tag, n)
            put(tag + "A", n.adjacency)
            attempt(tag + "s", lambda: n.set_fixed_recurrence_rate((.3, .3)))
            state(tag + "s", n)
            put(tag + "sA", n.adjacency)
            put(tag + "deg", n.degree())

print(H.hexdigest())
