"""Equivalence digest for twin_3 (core/_ext/src_numerics.c: current flow
betweenness kernels).

Run as: PYTHONPATH=<worktree>/src /venv/bin/python equiv.py
"""
import contextlib
import hashlib
import io

import numpy as np

from pyunicorn.core._ext.numerics import \
    _vertex_current_flow_betweenness, _edge_current_flow_betweenness
from pyunicorn.core.resistive_network import ResNetwork

H = hashlib.sha256()


def feed(tag, value):
    """Add a result (array/scalar or exception) to the digest; NaNs
    canonicalised."""
    H.update(tag.encode())
    if isinstance(value, BaseException):
        H.update(("EXC:" + type(value).__name__).encode())
        return
    H.update(type(value).__name__.encode())
    a = np.ascontiguousarray(value)
    H.update(str(a.dtype).encode() + str(a.shape).encode())
    if a.dtype.kind == "f":
        nan = np.isnan(a)
        H.update(np.ascontiguousarray(nan).tobytes())
        a = np.where(nan, a.dtype.type(0), a)
    H.update(np.ascontiguousarray(a).tobytes())


def attempt(tag, fun, *args, **kwargs):
    try:
        with np.errstate(all="ignore"), \
                contextlib.redirect_stdout(io.StringIO()):
            res = fun(*args, **kwargs)
    except Exception as exc:  # pylint: disable=broad-except
        res = exc
    feed(tag, res)


rng = np.random.RandomState(4242)

# --- direct calls of the compiled wrappers --------------------------------
for N in (0, 1, 2, 3, 4, 5, 8, 13, 21):
    for trial in range(3):
        adm = rng.rand(N, N).astype(np.float32)
        adm[rng.rand(N, N) < 0.4] = 0
        adm = (adm + adm.T).astype(np.float32)
        R = rng.randn(N, N).astype(np.float32)
        if trial == 2:
            R = (R + R.T).astype(np.float32)
        for (Is, It) in ((1.0, 1.0), (0.5, 2.0), (-1.25, 0.0)):
            attempt(f"edge{N}.{trial}.{Is}.{It}",
                    _edge_current_flow_betweenness, N, Is, It, adm, R)
            for i in range(N):
                attempt(f"vertex{N}.{trial}.{Is}.{It}.{i}",
                        _vertex_current_flow_betweenness,
                        N, Is, It, adm, R, i)
        # inputs must stay untouched
        feed("adm", adm)
        feed("R", R)

# non-contiguous (but correctly typed) buffers are accepted by the wrappers;
# only pass arrays whose memory block is large enough for N*N floats
base_a = rng.rand(6, 6).astype(np.float32)
base_r = rng.randn(6, 6).astype(np.float32)
attempt("edge-transposed", _edge_current_flow_betweenness, 6, 1.0, 1.0,
        base_a.T, base_r.T)
attempt("vertex-transposed", _vertex_current_flow_betweenness, 6, 1.0, 1.0,
        base_a.T, base_r.T, 2)

# special float values
adm = rng.rand(4, 4).astype(np.float32)
R = rng.randn(4, 4).astype(np.float32)
R[1, 2] = np.inf
attempt("edge-inf", _edge_current_flow_betweenness, 4, 1.0, 1.0, adm, R)
attempt("vertex-inf", _vertex_current_flow_betweenness, 4, 1.0, 1.0, adm, R, 0)
R[1, 2] = np.nan
attempt("edge-nan", _edge_current_flow_betweenness, 4, 1.0, 1.0, adm, R)
attempt("vertex-nan", _vertex_current_flow_betweenness, 4, 1.0, 1.0, adm, R, 3)
# N <= 1: no pair exists, any node index is harmless
attempt("vertex-N1-i5", _vertex_current_flow_betweenness, 1, 1.0, 1.0,
        adm[:1, :1].copy(), R[:1, :1].copy(), 5)
attempt("vertex-N0-i0", _vertex_current_flow_betweenness, 0, 1.0, 1.0,
        adm[:0, :0].copy(), R[:0, :0].copy(), 0)
attempt("vertex-Nneg", _vertex_current_flow_betweenness, -3, 1.0, 1.0,
        adm, R, 0)
attempt("edge-Nneg", _edge_current_flow_betweenness, -3, 1.0, 1.0, adm, R)

# argument errors of the wrappers
good = np.ones((3, 3), dtype=np.float32)
attempt("err-dtype", _edge_current_flow_betweenness, 3, 1.0, 1.0,
        good.astype(np.float64), good)
attempt("err-dtype2", _vertex_current_flow_betweenness, 3, 1.0, 1.0, good,
        good.astype(np.float64), 0)
attempt("err-ndim", _edge_current_flow_betweenness, 3, 1.0, 1.0, good[0], good)
attempt("err-str", _edge_current_flow_betweenness, "3", 1.0, 1.0, good, good)
attempt("err-Is", _vertex_current_flow_betweenness, 3, None, 1.0, good, good,
        0)
attempt("err-i", _vertex_current_flow_betweenness, 3, 1.0, 1.0, good, good,
        1.5)

# --- through the public API ------------------------------------------------
with contextlib.redirect_stdout(io.StringIO()):
    nets = [("small", ResNetwork.SmallTestNetwork())]
    for N in (2, 3, 6, 10):
        res = rng.randint(1, 6, size=(N, N)).astype(float)
        res[rng.rand(N, N) < 0.35] = 0
        res = np.triu(res, 1)
        # keep a connecting path 0-1-...-(N-1)
        for k in range(N - 1):
            if res[k, k + 1] == 0:
                res[k, k + 1] = 2.0
        res = res + res.T
        nets.append((f"rand{N}", ResNetwork(res, silence_level=2)))
for (name, net) in nets:
    attempt(f"api-edge-{name}", net.edge_current_flow_betweenness)
    for i in range(net.N):
        attempt(f"api-vertex-{name}-{i}",
                net.vertex_current_flow_betweenness, i)
    attempt(f"api-vertex-{name}-oob", net.vertex_current_flow_betweenness,
            net.N)
    attempt(f"api-vertex-{name}-neg", net.vertex_current_flow_betweenness, -1)
    # repeated call must give the same thing (no hidden state)
    attempt(f"api-edge-again-{name}", net.edge_current_flow_betweenness)
small = nets[0][1]
with contextlib.redirect_stdout(io.StringIO()):
    small.update_resistances(small.adjacency)
attempt("api-edge-unit", small.edge_current_flow_betweenness)
attempt("api-vertex-unit", small.vertex_current_flow_betweenness, 1)

print(H.hexdigest())
