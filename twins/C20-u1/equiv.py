"""Equivalence digest for twin_1 (climate/_ext/src_numerics.c: _spearman_corr).

Run as: PYTHONPATH=<worktree>/src /venv/bin/python equiv.py
"""
import hashlib

import numpy as np

from pyunicorn.climate._ext.numerics import spearman_corr, mutual_information
from pyunicorn.climate.rainfall import RainfallClimateNetwork

H = hashlib.sha256()


def feed(tag, value):
    """Add a result (array or exception) to the digest; NaNs canonicalised."""
    H.update(tag.encode())
    if isinstance(value, BaseException):
        H.update(("EXC:" + type(value).__name__).encode())
        return
    a = np.ascontiguousarray(value)
    H.update(str(a.dtype).encode() + str(a.shape).encode())
    if a.dtype.kind == "f":
        nan = np.isnan(a)
        H.update(np.ascontiguousarray(nan).tobytes())
        a = np.where(nan, a.dtype.type(0), a)
        # keep signed zeros / infinities bit exact
    H.update(np.ascontiguousarray(a).tobytes())


def attempt(tag, fun, *args):
    try:
        res = fun(*args)
    except Exception as exc:  # pylint: disable=broad-except
        res = exc
    feed(tag, res)


rng = np.random.RandomState(20200)

# --- direct calls of the compiled wrapper --------------------------------
shapes = [(0, 0), (0, 5), (1, 0), (3, 0), (1, 1), (2, 1), (5, 1), (1, 7),
          (2, 2), (3, 4), (4, 3), (7, 3), (3, 17), (12, 40), (25, 9),
          (30, 64)]
for (m, tmax) in shapes:
    for density in (0.0, 0.3, 0.8, 1.0):
        mask = (rng.rand(m, tmax) < density).astype(np.int8)
        data = rng.randn(m, tmax)
        ranks = (data.argsort(axis=1).argsort(axis=1) + 1.0).astype(np.float32)
        with np.errstate(all="ignore"):
            attempt(f"direct{m}x{tmax}d{density}", spearman_corr,
                    m, tmax, mask, ranks)
        # inputs must be left untouched
        feed("mask", mask)
        feed("ranks", ranks)

# masks with "odd" non-boolean int8 values (only zero / non-zero matters)
for (m, tmax) in [(3, 5), (6, 6), (9, 4)]:
    mask = rng.randint(-128, 128, size=(m, tmax)).astype(np.int8)
    mask[rng.rand(m, tmax) < 0.4] = 0
    ranks = (rng.randn(m, tmax).argsort(axis=1).argsort(axis=1)
             + 1.0).astype(np.float32)
    with np.errstate(all="ignore"):
        attempt(f"oddmask{m}x{tmax}", spearman_corr, m, tmax, mask, ranks)

# ranks with ties / arbitrary float32 content
for (m, tmax) in [(4, 6), (5, 5)]:
    mask = (rng.rand(m, tmax) < 0.6).astype(np.int8)
    ranks = rng.randint(0, 4, size=(m, tmax)).astype(np.float32) * 0.5
    with np.errstate(all="ignore"):
        attempt(f"ties{m}x{tmax}", spearman_corr, m, tmax, mask, ranks)

# argument errors of the wrapper
good_mask = np.ones((3, 4), dtype=np.int8)
good_ranks = np.ones((3, 4), dtype=np.float32)
attempt("err-mask-dtype", spearman_corr, 3, 4, good_mask.astype(bool).astype(
    np.int32), good_ranks)
attempt("err-ranks-dtype", spearman_corr, 3, 4, good_mask,
        good_ranks.astype(np.float64))
attempt("err-mask-none", spearman_corr, 3, 4, None, good_ranks)
attempt("err-ranks-none", spearman_corr, 3, 4, good_mask, None)
attempt("err-mask-ndim", spearman_corr, 3, 4, good_mask[0], good_ranks)
attempt("err-fortran", spearman_corr, 3, 4, np.asfortranarray(good_mask),
        np.asfortranarray(good_ranks))
attempt("err-neg-m", spearman_corr, -1, 4, good_mask, good_ranks)
attempt("err-str", spearman_corr, "a", 4, good_mask, good_ranks)

# --- through the public method -------------------------------------------
for (m, tmax) in [(1, 1), (2, 9), (6, 20), (10, 5), (4, 0), (0, 3)]:
    for mdtype in (bool, np.int8, np.int64, np.float64):
        mask = (rng.rand(m, tmax) < 0.5).astype(mdtype)
        for adtype in (np.float32, np.float64, np.int32):
            anomaly = (rng.randn(m, tmax) * 10).astype(adtype)
            with np.errstate(all="ignore"):
                attempt(f"api{m}x{tmax}{np.dtype(mdtype)}{np.dtype(adtype)}",
                        RainfallClimateNetwork.spearman_corr,
                        RainfallClimateNetwork, mask, anomaly)
attempt("api-shape-mismatch", RainfallClimateNetwork.spearman_corr,
        RainfallClimateNetwork, np.ones((3, 4), dtype=bool), np.ones((4, 3)))
attempt("api-transposed-view", RainfallClimateNetwork.spearman_corr,
        RainfallClimateNetwork, (rng.rand(5, 8) < 0.5).T,
        rng.randn(5, 8).T)

# --- neighbour kernel in the same translation unit -----------------------
for (N, n_samples, n_bins) in [(0, 0, 1), (1, 1, 1), (1, 10, 4), (3, 1, 2),
                               (4, 50, 8), (9, 5, 3), (6, 30, 32),
                               (5, 0, 4)]:
    anomaly = rng.randn(N, n_samples).astype(np.float32)
    if anomaly.size:
        range_min = float(anomaly.min())
        range_max = float(anomaly.max())
    else:
        range_min, range_max = 0.0, 1.0
    scaling = 1.0 / (range_max - range_min) if range_max > range_min else 0.0
    with np.errstate(all="ignore"):
        attempt(f"mi{N}x{n_samples}b{n_bins}", mutual_information,
                anomaly, n_samples, N, n_bins, scaling, range_min)
attempt("mi-bins0", mutual_information, np.zeros((2, 3), dtype=np.float32),
        3, 2, 0, 1.0, 0.0)

print(H.hexdigest())
