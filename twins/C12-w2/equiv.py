"""Equivalence digest for GeoNetwork area weighted connectivity measures."""
import contextlib
import hashlib
import io
import numpy as np
from pyunicorn.core.geo_grid import GeoGrid
from pyunicorn.core.geo_network import GeoNetwork

h = hashlib.sha256()


def feed(tag, arr):
    arr = np.ascontiguousarray(arr)
    h.update(tag.encode())
    h.update(str(arr.dtype).encode())
    h.update(str(arr.shape).encode())
    h.update(arr.tobytes())


def state(tag, net):
    feed(tag + "-nw", net.node_weights)
    h.update(repr((net.node_weight_type, net._mut_nw, net._mut_A,
                   net._mut_la, float(net.total_node_weight),
                   float(net.mean_node_weight), net.n_links)).encode())


def captured(tag, fn):
    """Run fn, digesting result, printed output and exception type."""
    buf = io.StringIO()
    try:
        with contextlib.redirect_stdout(buf):
            res = fn()
        feed(tag, res)
    except BaseException as e:
        h.update((tag + ":" + type(e).__name__).encode())
    h.update(buf.getvalue().encode())


rng = np.random.default_rng(1212)


def random_net(n, directed, p, nwt, silence):
    lat = rng.uniform(-90, 90, size=n)
    lon = rng.uniform(-180, 180, size=n)
    if n > 2:
        lat[0], lat[1] = 90., -90.
    grid = GeoGrid(np.arange(3.), lat, lon, silence_level=2)
    A = (rng.random((n, n)) < p).astype(np.int8)
    np.fill_diagonal(A, 0)
    if not directed:
        A = np.triu(A, 1)
        A = A + A.T
    buf = io.StringIO()
    with contextlib.redirect_stdout(buf):
        net = GeoNetwork(grid, adjacency=A, directed=directed,
                         node_weight_type=nwt, silence_level=silence)
    h.update(buf.getvalue().encode())
    return net


k = 0
for n in (2, 3, 5, 17, 60):
    for directed in (False, True):
        for p in (0.0, 0.3, 1.0):
            for nwt, silence in ((None, 0), ("surface", 1), ("irrigation", 2)):
                k += 1
                tag = f"net{k}"
                net = random_net(n, directed, p, nwt, silence)
                state(tag + "-s0", net)
                captured(tag + "-awc", net.area_weighted_connectivity)
                captured(tag + "-in", net.inarea_weighted_connectivity)
                captured(tag + "-out", net.outarea_weighted_connectivity)
                captured(tag + "-awc2", net.area_weighted_connectivity)
                if n >= 5:
                    captured(tag + "-dist", lambda: np.concatenate(
                        [np.ravel(a) for a in
                         net.area_weighted_connectivity_distribution(4)]))
                    captured(tag + "-indist", lambda: np.concatenate(
                        [np.ravel(a) for a in
                         net.inarea_weighted_connectivity_distribution(4)]))
                    captured(tag + "-outcum", lambda: np.concatenate(
                        [np.ravel(a) for a in net.
                         outarea_weighted_connectivity_cumulative_distribution(
                             3)]))
                    captured(tag + "-avgnb",
                             net.average_neighbor_area_weighted_connectivity)
                    captured(tag + "-maxnb",
                             net.max_neighbor_area_weighted_connectivity)
                state(tag + "-s1", net)

# subclass overriding one variant: the public methods must still dispatch
# through each other exactly as before


class Sub(GeoNetwork):
    def inarea_weighted_connectivity(self):
        print("sub-in")
        return GeoNetwork.inarea_weighted_connectivity(self) * 2

    def outarea_weighted_connectivity(self):
        print("sub-out")
        return GeoNetwork.outarea_weighted_connectivity(self) * 3


for directed in (False, True):
    base = random_net(9, directed, 0.4, "surface", 0)
    buf = io.StringIO()
    with contextlib.redirect_stdout(buf):
        sub = Sub(base.grid, adjacency=base.adjacency, directed=directed,
                  node_weight_type="surface", silence_level=0)
    captured(f"sub{directed}-awc", sub.area_weighted_connectivity)
    captured(f"sub{directed}-in", sub.inarea_weighted_connectivity)
    captured(f"sub{directed}-out", sub.outarea_weighted_connectivity)

# the adjacency is changed between calls -> no stale results
net = random_net(8, True, 0.5, "surface", 2)
captured("mut-a", net.area_weighted_connectivity)
net.adjacency = np.roll(net.adjacency, 1, axis=0) * (1 - np.eye(8, dtype=int))
captured("mut-b", net.area_weighted_connectivity)
captured("mut-c", net.inarea_weighted_connectivity)
captured("mut-d", net.outarea_weighted_connectivity)

# broken grid -> exception types
net = random_net(6, True, 0.5, "surface", 0)
net.grid = None
captured("nogrid-awc", net.area_weighted_connectivity)
captured("nogrid-in", net.inarea_weighted_connectivity)
captured("nogrid-out", net.outarea_weighted_connectivity)

captured("small", GeoNetwork.SmallTestNetwork().area_weighted_connectivity)
print(h.hexdigest())
