"""Deterministic digest of the resistive-network mechanism (property C18).

Run as:  PYTHONPATH=<worktree>/src /venv/bin/python equiv.py
Prints one sha256 digest; it must be identical on the pristine and on the
refactored tree.
"""
import contextlib
import hashlib
import io
import warnings

import numpy as np

warnings.simplefilter("ignore")

from pyunicorn.core.resistive_network import ResNetwork
from pyunicorn.core._ext.numerics import (
    _vertex_current_flow_betweenness, _edge_current_flow_betweenness)

H = hashlib.sha256()
LOG = []


def feed(tag, value):
    if isinstance(value, np.ndarray) and value.dtype.hasobject:
        payload = ("obj" + str(value.shape) + repr(value.tolist())).encode()
    elif isinstance(value, np.ndarray):
        payload = (str(value.dtype) + str(value.shape)).encode() + \
            np.ascontiguousarray(value).tobytes()
    elif isinstance(value, (float, complex, np.floating,
                            np.complexfloating)):
        payload = (type(value).__name__ + ":").encode() + \
            np.asarray(value).tobytes()
    else:
        payload = repr(value).encode()
    H.update(tag.encode() + b"|" + payload + b"\n")
    LOG.append(tag + " " + hashlib.sha256(payload).hexdigest()[:12])


def attempt(tag, fn):
    out = io.StringIO()
    try:
        with contextlib.redirect_stdout(out):
            res = fn()
    except BaseException as exc:   # noqa
        feed(tag + ":exc", type(exc).__name__ + ":" + str(exc))
    else:
        feed(tag, res)
    feed(tag + ":stdout", out.getvalue())


def state(tag, net):
    """Digest the complete electrical state of the object."""
    feed(tag + ":flag", (type(net.flagComplex).__name__, net.flagComplex))
    feed(tag + ":res", np.asarray(net.resistances))
    for name in ("sparse_Adm", "sparse_R"):
        mat = getattr(net, name)
        feed(tag + ":" + name + ":type",
             None if mat is None else (type(mat).__name__, str(mat.dtype),
                                       mat.shape))
        if mat is not None:
            feed(tag + ":" + name, mat.toarray())
    g = net.adm_graph
    feed(tag + ":adm_graph", None if g is None else
         (g.vcount(), g.is_directed(), g.get_edgelist()))
    feed(tag + ":graph", (net.graph.vcount(), net.graph.get_edgelist()))
    er = net._effective_resistances
    feed(tag + ":store", None if er is None else np.asarray(er))
    feed(tag + ":store_type", type(er).__name__)


def random_network(rng, n, p, cplx=False, connected=True):
    while True:
        upper = np.triu(rng.random((n, n)) < p, k=1)
        if connected:
            for k in range(n - 1):
                upper[k, k + 1] = True
        adj = (upper | upper.T).astype("int8")
        if adj.sum() > 0:
            break
    vals = rng.uniform(0.5, 9.0, size=(n, n))
    vals = np.triu(vals, 1)
    vals = vals + vals.T
    res = vals * adj
    if cplx:
        im = rng.uniform(0.5, 9.0, size=(n, n))
        im = np.triu(im, 1)
        im = (im + im.T) * adj
        res = res + 1j * im
    return res, adj


def exercise(tag, net):
    state(tag + ":s0", net)
    attempt(tag + ":str", lambda: str(net))
    attempt(tag + ":adm", net.get_admittance)
    attempt(tag + ":lap", net.admittance_lapacian)
    attempt(tag + ":R", net.get_R)
    attempt(tag + ":ad", net.admittive_degree)
    attempt(tag + ":anad", net.average_neighbors_admittive_degree)
    attempt(tag + ":lac", net.local_admittive_clustering)
    attempt(tag + ":gac", net.global_admittive_clustering)
    n = net.N
    for a in range(n):
        for b in range(n):
            attempt(f"{tag}:er{a},{b}",
                    lambda a=a, b=b: net.effective_resistance(a, b))
    attempt(tag + ":er_oob", lambda: net.effective_resistance(0, n))
    attempt(tag + ":er_oob2", lambda: net.effective_resistance(n, n))
    attempt(tag + ":er_neg", lambda: net.effective_resistance(-1, n - 1))
    attempt(tag + ":er_np",
            lambda: net.effective_resistance(np.int64(0), np.int32(0)))
    # the store: diameter first (prints, fills), then again (silent)
    attempt(tag + ":diam1", net.diameter_effective_resistance)
    state(tag + ":s1", net)
    attempt(tag + ":diam2", net.diameter_effective_resistance)
    attempt(tag + ":avg", net.average_effective_resistance)
    state(tag + ":s2", net)
    for a in range(n):
        attempt(f"{tag}:ercc{a}",
                lambda a=a: net.effective_resistance_closeness_centrality(a))
    if not net.flagComplex:
        for i in range(-1, n + 1):
            attempt(f"{tag}:vcfb{i}",
                    lambda i=i: net.vertex_current_flow_betweenness(i))
        attempt(tag + ":ecfb", net.edge_current_flow_betweenness)
    else:
        attempt(tag + ":vcfb0",
                lambda: net.vertex_current_flow_betweenness(0))
        attempt(tag + ":ecfb", net.edge_current_flow_betweenness)


def main():
    rng = np.random.default_rng(1805)

    # --- documented small networks and updates of their resistances --------
    net = ResNetwork.SmallTestNetwork()
    exercise("small", net)
    attempt("small:upd_unit", lambda: net.update_resistances(net.adjacency))
    state("small:after_unit", net)
    exercise("small_unit", net)
    attempt("small:upd_list", lambda: net.update_resistances(
        [[0, 3, 0, 0, 0], [3, 0, 5, 7, 0], [0, 5, 0, 1, 0],
         [0, 7, 1, 0, 2], [0, 0, 0, 2, 0]]))
    exercise("small_list", net)
    # scaling
    attempt("small:upd_scaled",
            lambda: net.update_resistances(2.5 * net.resistances))
    exercise("small_scaled", net)
    # complex then back to real on the same object
    cres = np.asarray(net.resistances) * (1 + 0.5j)
    attempt("small:upd_cplx", lambda: net.update_resistances(cres))
    exercise("small_cplx", net)
    attempt("small:upd_real", lambda: net.update_resistances(net.adjacency))
    exercise("small_real_again", net)
    # a zero resistance on a link (division by zero -> inf admittance)
    bad = np.array(net.adjacency, dtype=float)
    bad[0, 1] = 0.0
    attempt("small:upd_zero", lambda: net.update_resistances(bad))
    state("small:after_zero", net)
    attempt("small:zero_er", lambda: net.effective_resistance(0, 1))
    # wrong shape -> exception part-way, state afterwards
    attempt("small:upd_wrongshape",
            lambda: net.update_resistances(np.ones((3, 3))))
    state("small:after_wrongshape", net)
    attempt("small:upd_wrongtype", lambda: net.update_resistances("abc"))
    state("small:after_wrongtype", net)
    attempt("small:upd_none", lambda: net.update_resistances(None))
    state("small:after_none", net)

    exercise("smallcomplex", ResNetwork.SmallComplexNetwork())

    # --- partial-failure behaviour of the all-pairs store --------------------
    net = ResNetwork.SmallTestNetwork()
    net.average_effective_resistance()
    full_R = net.sparse_R
    net.sparse_R = full_R[:3, :3]
    attempt("partial:avg", net.average_effective_resistance)
    state("partial:state", net)
    attempt("partial:diam", net.diameter_effective_resistance)
    attempt("partial:vcfb", lambda: net.vertex_current_flow_betweenness(1))
    attempt("partial:ecfb", net.edge_current_flow_betweenness)
    net.sparse_R = full_R
    net._effective_resistances = None
    net.flagComplex = 1
    attempt("flag1:er", lambda: net.effective_resistance(2, 2))
    attempt("flag1:upd_adm", net.update_admittance)
    state("flag1:state", net)
    net.flagComplex = ""
    attempt("flag_empty:er", lambda: net.effective_resistance(2, 2))
    attempt("flag_empty:upd_adm", net.update_admittance)
    attempt("flag_empty:upd_R", net.update_R)
    state("flag_empty:state", net)

    # --- series / parallel / tiny networks -----------------------------------
    for n in (2, 3):
        adj = np.zeros((n, n), dtype="int8")
        for k in range(n - 1):
            adj[k, k + 1] = adj[k + 1, k] = 1
        res = adj * 3.0
        attempt(f"path{n}:build", lambda: exercise(
            f"path{n}", ResNetwork(res, adjacency=adj, silence_level=2)))
    attempt("verbose:build", lambda: state(
        "verbose", ResNetwork(np.array([[0, 2.], [2., 0]]))))
    tri = np.array([[0, 1., 2.], [1., 0, 4.], [2., 4., 0]])
    exercise("tri", ResNetwork(tri, silence_level=2))

    # --- random connected and unconnected networks, real and complex ---------
    for n in (4, 6, 9, 13):
        for p in (0.15, 0.5, 1.0):
            for cplx in (False, True):
                res, adj = random_network(rng, n, p, cplx=cplx)
                tag = f"rnd{n}_{p}_{int(cplx)}"
                net = ResNetwork(res, adjacency=adj, silence_level=2)
                exercise(tag, net)
                # change of the resistances on the same object
                res2, _ = random_network(rng, n, 1.0, cplx=cplx)
                attempt(tag + ":upd", lambda: net.update_resistances(
                    res2 * adj))
                exercise(tag + "_u", net)
    res, adj = random_network(rng, 7, 0.2, connected=False)
    exercise("unconnected", ResNetwork(res, adjacency=adj, silence_level=2))

    # --- compiled kernels called directly -------------------------------------
    for n in (0, 1, 2, 3, 5, 8, 17):
        adm = rng.uniform(0, 2, size=(n, n)).astype("float32")
        adm *= (rng.random((n, n)) < 0.6)
        R = rng.normal(size=(n, n)).astype("float32")
        for Is, It in ((1.0, 1.0), (0.25, 3.0), (-1.5, 0.0)):
            for i in range(n):
                attempt(f"k:v{n}:{Is}:{It}:{i}", lambda i=i:
                        _vertex_current_flow_betweenness(n, Is, It, adm, R,
                                                         i))
            attempt(f"k:e{n}:{Is}:{It}", lambda:
                    _edge_current_flow_betweenness(n, Is, It, adm, R))
        if n:
            adm2 = adm.copy()
            adm2[0, -1] = np.inf
            R2 = R.copy()
            R2[-1, 0] = np.nan
            attempt(f"k:vnan{n}", lambda:
                    _vertex_current_flow_betweenness(n, 1., 1., adm2, R2, 0))
            attempt(f"k:enan{n}", lambda:
                    _edge_current_flow_betweenness(n, 1., 1., adm2, R2))
        # wrong dtype / dimension -> buffer errors
        attempt(f"k:vdtype{n}", lambda: _vertex_current_flow_betweenness(
            n, 1., 1., adm.astype("float64"), R, 0))
        attempt(f"k:edtype{n}", lambda: _edge_current_flow_betweenness(
            n, 1., 1., adm, R.astype("float64")))
        attempt(f"k:endim{n}", lambda: _edge_current_flow_betweenness(
            n, 1., 1., adm.ravel(), R))
    # Fortran-ordered input is accepted and read through its raw buffer
    admF = np.asfortranarray(rng.uniform(0, 2, size=(4, 4)).astype("float32"))
    RF = np.asfortranarray(rng.normal(size=(4, 4)).astype("float32"))
    attempt("k:vF", lambda: _vertex_current_flow_betweenness(
        4, 1., 1., admF, RF, 2))
    attempt("k:eF", lambda: _edge_current_flow_betweenness(
        4, 1., 1., admF, RF))

    print(len(LOG), "items")
    import os
    if os.environ.get("EQ_DUMP"):
        open(os.environ["EQ_DUMP"], "w").write("\n".join(LOG))
    print(H.hexdigest())


main()
