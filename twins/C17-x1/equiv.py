"""Digest of the geographical rewiring kernels (models I, II, III)."""
import contextlib
import hashlib
import io

import numpy as np

from pyunicorn.core._ext.types import to_cy, ADJ, NODE, FIELD, DEGREE
from pyunicorn.core._ext.numerics import (
    _randomly_rewire_geomodel_I, _randomly_rewire_geomodel_II,
    _randomly_rewire_geomodel_III)
from pyunicorn.core.grid import Grid
from pyunicorn.core.spatial_network import SpatialNetwork

H = hashlib.sha256()


def feed(*items):
    for x in items:
        if isinstance(x, np.ndarray):
            H.update(str(x.dtype).encode())
            H.update(str(x.shape).encode())
            H.update(np.ascontiguousarray(x).tobytes())
        else:
            H.update(repr(x).encode())
        H.update(b"|")


def ring(N, k):
    A = np.zeros((N, N), dtype=np.int8)
    for i in range(N):
        for d in range(1, k + 1):
            A[i, (i + d) % N] = A[(i + d) % N, i] = 1
    return A


def rand_graph(rs, N, p):
    U = rs.random_sample((N, N)) < p
    A = np.triu(U, 1)
    return (A + A.T).astype(np.int8)


def edge_list(A):
    return np.array([(i, j) for i in range(len(A))
                     for j in range(i + 1, len(A)) if A[i, j]],
                    dtype=int).reshape(-1, 2)


def attempt(fun, *args):
    try:
        fun(*args)
        return "ok"
    except BaseException as e:  # pylint: disable=broad-except
        return "EXC:" + type(e).__name__


def kernels(seed, A0, D0, eps, iterations):
    for model in (1, 2, 3):
        A = to_cy(A0, ADJ)
        D = to_cy(D0, FIELD)
        edges = to_cy(edge_list(A0), NODE)
        E = len(edges)
        deg = to_cy(A0.sum(axis=0), DEGREE)
        np.random.seed(seed)
        if model == 1:
            r = attempt(_randomly_rewire_geomodel_I,
                        iterations, eps, A, D, E, edges)
        elif model == 2:
            r = attempt(_randomly_rewire_geomodel_II,
                        iterations, eps, A, D, E, edges)
        else:
            r = attempt(_randomly_rewire_geomodel_III,
                        iterations, eps, A, D, E, edges, deg)
        feed(model, r, A, edges, D, deg, np.random.random_sample(3))


rs = np.random.RandomState(1234)

# ring lattices (all degrees equal, so model III can proceed)
for N, k in ((12, 1), (16, 2), (25, 3)):
    pos = rs.random_sample((2, N))
    D0 = np.sqrt(((pos[:, :, None] - pos[:, None, :]) ** 2).sum(axis=0))
    for eps in (0.35, 0.8, 10.0):
        for seed in (0, 7, 99):
            kernels(seed, ring(N, k), D0, eps, 15)

# two-class degree graphs: disjoint union of two rings with different k
A0 = np.zeros((22, 22), dtype=np.int8)
A0[:10, :10] = ring(10, 1)
A0[10:, 10:] = ring(12, 2)
pos = rs.random_sample((2, 22))
D0 = np.sqrt(((pos[:, :, None] - pos[:, None, :]) ** 2).sum(axis=0))
for seed in (3, 4, 5):
    kernels(seed, A0, D0, 5.0, 20)
    kernels(seed, A0, D0, 0.6, 6)

# random graphs, integer "distances" with exact ties at the tolerance
for seed in (11, 12, 13):
    A0 = rand_graph(rs, 18, 0.3)
    D0 = rs.randint(0, 4, size=(18, 18)).astype(float)
    D0 = D0 + D0.T
    for model_eps in (1.0, 2.0, 100.0):
        # model III may not terminate on arbitrary graphs: only I and II
        for model in (1, 2):
            A = to_cy(A0, ADJ)
            D = to_cy(D0, FIELD)
            edges = to_cy(edge_list(A0), NODE)
            np.random.seed(seed)
            fun = (_randomly_rewire_geomodel_I if model == 1
                   else _randomly_rewire_geomodel_II)
            r = attempt(fun, 8 if model_eps > 50 else 2, model_eps, A, D,
                        len(edges), edges)
            feed(model, r, A, edges, np.random.random_sample(2))

# zero iterations, also with an edgeless network
kernels(1, ring(8, 1), np.ones((8, 8)), 1.0, 0)
kernels(1, np.zeros((5, 5), dtype=np.int8), np.ones((5, 5)), 1.0, 0)
# edgeless network with a positive number of iterations: exception
kernels(1, np.zeros((5, 5), dtype=np.int8), np.ones((5, 5)), 1.0, 2)
# distance matrix too small: exception out of the condition functions
kernels(2, ring(10, 1), np.ones((3, 3)), 5.0, 4)
# empty degree array handed to model III: exception
A = to_cy(ring(10, 1), ADJ)
edges = to_cy(edge_list(ring(10, 1)), NODE)
np.random.seed(5)
feed(attempt(_randomly_rewire_geomodel_III, 3, 5.0, A,
             to_cy(np.ones((10, 10)), FIELD), len(edges), edges,
             np.zeros(0, dtype=DEGREE)), A, edges)

# through the public methods
for N, k, seed in ((14, 2, 21), (20, 1, 22)):
    pos = rs.random_sample((2, N))
    grid = Grid(np.arange(3.0), pos, silence_level=2)
    D0 = np.sqrt(((pos[:, :, None] - pos[:, None, :]) ** 2).sum(axis=0))
    for name in ("randomly_rewire_geomodel_I", "randomly_rewire_geomodel_II",
                 "randomly_rewire_geomodel_III"):
        for sl in (0, 2):
            net = SpatialNetwork(grid, adjacency=ring(N, k),
                                 silence_level=sl)
            np.random.seed(seed)
            out = io.StringIO()
            with contextlib.redirect_stdout(out):
                r = attempt(getattr(net, name), D0, 12, 0.7)
            feed(name, r, out.getvalue(), net.adjacency, net.n_links,
                 net.degree(), np.array(net.graph.get_edgelist()))

print(H.hexdigest())
