"""Equivalence digest for Network.FromIGraph / Load / set_edge_list
(property C05)."""
import contextlib
import hashlib
import io
import os
import shutil
import tempfile

import numpy as np
import scipy.sparse as sp
import igraph

from pyunicorn.core.network import Network
from pyunicorn.climate.climate_network import ClimateNetwork  # noqa: F401

H = hashlib.sha256()


def put(*items):
    for it in items:
        if isinstance(it, np.ndarray):
            H.update(str(it.dtype).encode() + str(it.shape).encode())
            H.update(np.ascontiguousarray(it).tobytes())
        else:
            H.update(repr(it).encode())
        H.update(b"|")


def state(net):
    A = net.sp_A
    put(type(net).__name__, net.directed, type(net.directed).__name__,
        net.silence_level, net.N, type(net.N).__name__, net.n_links,
        type(net.n_links).__name__, repr(net.link_density),
        str(net.sp_dtype), type(A).__name__, str(A.dtype), A.shape,
        A.indices, A.indptr, A.data, A.has_sorted_indices, net.adjacency,
        net.graph.is_directed(), net.graph.vcount(),
        net.graph.get_edgelist(), sorted(net.graph.vs.attributes()),
        sorted(net.graph.es.attributes()), net.node_weights,
        repr(net.total_node_weight), repr(net.mean_node_weight),
        net._mut_A, net._mut_nw, net._mut_la, str(net), len(net))
    for a in sorted(net.graph.vs.attributes()):
        put(a, repr(net.graph.vs[a]))
    for a in sorted(net.graph.es.attributes()):
        put(a, repr(net.graph.es[a]), net.link_attribute(a))
    put(net.degree(), net.edge_list())
    if net.directed:
        put(net.indegree(), net.outdegree())


def attempt(label, fn):
    out = io.StringIO()
    try:
        with contextlib.redirect_stdout(out), \
                contextlib.redirect_stderr(io.StringIO()):
            res = fn()
    except BaseException as e:  # pylint: disable=broad-except
        put(label, "EXC", type(e).__name__, str(e))
        return None
    put(label, "OK", out.getvalue())
    return res


def random_graph(rng, N, m, directed):
    edges = set()
    while len(edges) < m:
        i, j = (int(x) for x in rng.integers(0, N, 2))
        if i != j and (i, j) not in edges and \
                (directed or (j, i) not in edges):
            edges.add((i, j))
    edges = sorted(edges)
    rng.shuffle(edges)
    return igraph.Graph(n=N, edges=[tuple(e) for e in edges],
                        directed=directed)


class Duck:
    """Not a graph at all."""


def main():
    rng = np.random.default_rng(31337)
    tmp = tempfile.mkdtemp(prefix="tw8c05_")
    graphs = []
    for N, m in ((0, 0), (1, 0), (2, 0), (2, 1), (3, 1), (5, 0), (5, 4),
                 (6, 7), (10, 30), (25, 60), (40, 39)):
        for directed in (False, True):
            g = random_graph(rng, N, m, directed)
            graphs.append(g)
            gw = g.copy()
            gw.vs["node_weight_nsi"] = list(rng.random(N) + 0.5)
            gw.vs["name"] = [f"n{i}" for i in range(N)]
            gw.es["weight"] = list(rng.random(m))
            gw.es["kind"] = [int(x) for x in rng.integers(0, 3, m)]
            graphs.append(gw)
    #  special graphs
    graphs.append(igraph.Graph(n=4, edges=[(0, 1), (0, 1), (1, 0)]))
    graphs.append(igraph.Graph(n=4, edges=[(0, 1), (0, 1), (1, 0)],
                               directed=True))
    graphs.append(igraph.Graph(n=3, edges=[(2, 2), (0, 1)]))
    graphs.append(igraph.Graph(n=3, edges=[(2, 2)], directed=True))
    graphs.append(igraph.Graph.Full(7))
    graphs.append(igraph.Graph.Full(5, directed=True))
    graphs.append(igraph.Graph.Star(6, mode="in"))
    graphs.append(igraph.Graph.Ring(8, directed=True, mutual=True))
    graphs.append(igraph.Graph.Tree(15, 2))
    gi = igraph.Graph(n=3, edges=[(0, 2)])
    gi.vs["node_weight_nsi"] = [1, 2, 3]
    graphs.append(gi)
    gb = igraph.Graph(n=3, edges=[(0, 2)])
    gb.vs["node_weight_nsi"] = ["x", "y", "z"]
    graphs.append(gb)
    gn = igraph.Graph(n=3, edges=[(0, 2)])
    gn.vs["node_weight_nsi"] = [1.0, None, 3.0]
    graphs.append(gn)
    gr = igraph.Graph(n=2, edges=[(0, 1)])
    gr.vs["node_weight_nsi"] = [[1.0, 2.0], [3.0]]
    graphs.append(gr)
    g2 = igraph.Graph(n=2, edges=[(0, 1)])
    g2.vs["node_weight_nsi"] = [[1.0, 2.0], [3.0, 4.0]]
    graphs.append(g2)

    for k, g in enumerate(graphs):
        put("GRAPH", k, g.vcount(), g.ecount(), g.is_directed())
        before = (g.get_edgelist(), sorted(g.vs.attributes()),
                  sorted(g.es.attributes()))
        for sl in (0, 2):
            net = attempt("FromIGraph",
                          lambda: Network.FromIGraph(g, silence_level=sl))
            if net is None:
                continue
            state(net)
            put(net.graph is g)
            #  the same network through the other representations
            if net.N > 1:
                alt = attempt("edge_list", lambda: Network(
                    edge_list=g.get_edgelist(), n_nodes=g.vcount(),
                    directed=g.is_directed(), silence_level=sl))
                if alt is not None:
                    put((alt.sp_A != net.sp_A).nnz, alt.n_links == net.n_links)
                c = attempt("copy", net.copy)
                if c is not None:
                    state(c)
        attempt("FromIGraph-positional", lambda: state(
            Network.FromIGraph(g, 1)))
        put(before == (g.get_edgelist(), sorted(g.vs.attributes()),
                       sorted(g.es.attributes())))
        #  through a file
        if g.vcount() > 1:
            for fmt in ("graphml", "pickle", "gml", "edgelist"):
                path = os.path.join(tmp, f"g{k}.{fmt}")
                attempt("write", lambda: g.write(path, format=fmt))
                back = attempt(f"Load-{fmt}", lambda: Network.Load(
                    path, fileformat=fmt, silence_level=3))
                if back is not None:
                    state(back)

    #  keyword / positional call styles and bad arguments
    g = graphs[30]
    attempt("kw", lambda: state(Network.FromIGraph(graph=g, silence_level=1)))
    attempt("inst", lambda: state(
        Network.SmallTestNetwork().FromIGraph(g)))
    attempt("sub", lambda: state(ClimateNetwork.FromIGraph(g)))
    attempt("none", lambda: Network.FromIGraph(None))
    attempt("duck", lambda: Network.FromIGraph(Duck()))
    attempt("nx-like", lambda: Network.FromIGraph([(0, 1)]))
    attempt("badkw", lambda: Network.FromIGraph(g, directed=True))

    #  set_edge_list itself, on live objects
    net = Network.SmallTestNetwork()
    for el, n in (([[0, 1], [1, 2]], None), ([[0, 1], [1, 2]], 5),
                  ([], 3), ([], None), ([[3, 0]], None), ([[0, 1, 2]], None),
                  ([0, 1, 2], None), (np.array([[0, 4], [4, 2]]), 6),
                  ([(1, 0), (0, 1)], 2), ([[0, 7]], 3)):
        attempt("set_edge_list", lambda: net.set_edge_list(el, n))
        put(net.N, net.n_links, repr(net.link_density), net.adjacency,
            net._mut_A, net.graph.get_edgelist())
    dnet = Network.SmallDirectedTestNetwork()
    for el, n in (([[0, 1], [1, 0], [2, 1]], None), ([[5, 0]], 8), ([], 2)):
        attempt("set_edge_list-d", lambda: dnet.set_edge_list(el, n))
        put(dnet.N, dnet.n_links, repr(dnet.link_density), dnet.adjacency,
            dnet._mut_A, dnet.graph.get_edgelist())

    shutil.rmtree(tmp, ignore_errors=True)
    print(H.hexdigest())


if __name__ == "__main__":
    main()
