"""Equivalence digest for twin_1 (Network.path_lengths / average_path_length /
closeness / global_efficiency)."""
import hashlib
import io
import contextlib
import warnings

import numpy as np

from pyunicorn.core.network import Network

warnings.simplefilter("ignore")
H = hashlib.sha256()
LOG = []


def feed(tag, value):
    if isinstance(value, np.ndarray):
        payload = (str(value.dtype) + str(value.shape)).encode() \
            + np.ascontiguousarray(value).tobytes()
    else:
        payload = repr(value).encode()
    H.update(tag.encode() + b"|" + payload + b"\n")
    LOG.append(tag)


def call(tag, fn, *args, **kwargs):
    out = io.StringIO()
    try:
        with contextlib.redirect_stdout(out):
            res = fn(*args, **kwargs)
    except Exception as e:  # pylint: disable=broad-except
        res = "EXC:" + type(e).__name__
    if isinstance(res, (float, np.floating)):
        res = np.array(res, dtype=float)
    feed(tag, res)
    feed(tag + ":stdout", out.getvalue())
    return res


def make(rng, N, p, directed, zero_weights=False):
    A = (rng.random((N, N)) < p).astype(int)
    np.fill_diagonal(A, 0)
    if not directed:
        A = np.triu(A, 1)
        A = A + A.T
    net = Network(adjacency=A, directed=directed, silence_level=0)
    W = rng.random((N, N)) * 3 + 0.1
    if not directed:
        W = (W + W.T) / 2
    if zero_weights:
        W[rng.random((N, N)) < 0.3] = 0.0
        if not directed:
            W = np.minimum(W, W.T)
    net.set_link_attribute("w", W)
    net.set_link_attribute("ones", np.ones((N, N)))
    return net


def probe(tag, net):
    # order of queries matters: interleave and repeat them
    attrs = [None, "topological", "w", "ones"]
    methods = ["average_path_length", "closeness", "global_efficiency",
               "path_lengths"]
    for rep in range(2):
        for a in attrs:
            for m in methods:
                call(f"{tag}:{rep}:{a}:{m}", getattr(net, m), a)
                for b in (None, "w", "ones"):
                    pl = call(f"{tag}:{rep}:{a}:{m}:pl[{b}]",
                              net.path_lengths, b)
                    if isinstance(pl, np.ndarray):
                        feed(f"{tag}:{rep}:{a}:{m}:plid[{b}]",
                             id(pl) == id(net.path_lengths(b)))
    # default-argument call forms (different lru keys)
    for m in methods:
        call(f"{tag}:default:{m}", getattr(net, m))
    # after a link attribute update the cache must be refreshed
    N = net.N
    net.set_link_attribute("w", np.full((N, N), 2.5))
    for m in methods:
        call(f"{tag}:updated:{m}", getattr(net, m), "w")
    call(f"{tag}:missing", net.average_path_length, "nope")
    call(f"{tag}:missing2", net.closeness, "nope")
    call(f"{tag}:missing3", net.global_efficiency, "nope")


rng = np.random.default_rng(20240606)
k = 0
for N in (2, 3, 5, 8, 13, 21):
    for p in (0.0, 0.15, 0.4, 1.0):
        for directed in (False, True):
            with contextlib.redirect_stdout(io.StringIO()):
                net = make(rng, N, p, directed, zero_weights=(k % 3 == 0))
            probe(f"n{N}p{p}d{int(directed)}", net)
            k += 1

with contextlib.redirect_stdout(io.StringIO()):
    small = Network.SmallTestNetwork()
probe("small", small)

# silent objects print nothing
with contextlib.redirect_stdout(io.StringIO()):
    quiet = make(rng, 9, 0.3, False)
quiet.silence_level = 2
probe("quiet", quiet)

# warnings promoted to errors: state left behind must be identical as well
with contextlib.redirect_stdout(io.StringIO()):
    nets = [make(rng, n, p, d, zero_weights=z)
            for n in (2, 3, 4, 6) for p in (0.0, 0.5) for d in (False, True)
            for z in (False, True)]
with warnings.catch_warnings():
    warnings.simplefilter("error")
    old = np.seterr(all="raise")
    for i, net in enumerate(nets):
        for m in ("average_path_length", "closeness", "global_efficiency"):
            for a in ("w", None, "ones"):
                call(f"strict{i}:{m}:{a}", getattr(net, m), a)
                call(f"strict{i}:{m}:{a}:pl", net.path_lengths, a)
                call(f"strict{i}:{m}:{a}:plw", net.path_lengths, "w")
    np.seterr(**old)

print(len(LOG), H.hexdigest())
