"""Equivalence digest: Network.laplacian and degree/indegree/outdegree."""
import hashlib
import io
import contextlib

import numpy as np

from pyunicorn.core.network import Network

H = hashlib.sha256()


def feed(tag, val):
    H.update(tag.encode())
    if isinstance(val, np.ndarray):
        H.update(type(val).__name__.encode())
        H.update(str(val.dtype).encode())
        H.update(str(val.shape).encode())
        H.update(repr((val.flags.owndata, val.flags.c_contiguous,
                       val.flags.f_contiguous, val.flags.writeable,
                       val.base is None)).encode())
        H.update(np.ascontiguousarray(val).tobytes())
    else:
        H.update(repr(val).encode())


def attempt(tag, fn):
    out = io.StringIO()
    try:
        with contextlib.redirect_stdout(out):
            res = fn()
        feed(tag, res)
    except BaseException as exc:  # pylint: disable=broad-except
        feed(tag, "EXC:" + type(exc).__name__ + ":" + str(exc))
    feed(tag + "/stdout", out.getvalue())


class Unhashable(list):
    pass


rng = np.random.RandomState(777)
DIRECTIONS = ("out", "in", "both", "", None, 0, Unhashable(["out"]),
              np.array(["out"]), np.array(["in"]), np.array(["x"]),
              np.array(["in", "out"]), b"out", "OUT")
ATTRS = (None, "topological", "w", "missing", 0, "")

for n in (2, 3, 5, 8, 13, 30):
    for p in (0.0, 0.2, 0.5, 1.0):
        for directed in (False, True):
            A = (rng.rand(n, n) < p).astype(np.int8)
            np.fill_diagonal(A, 0)
            if not directed:
                A = np.maximum(A, A.T)
            tag = f"{n}-{p}-{directed}"
            for silence in (0, 2):
                net = Network(adjacency=A, directed=directed,
                              silence_level=silence)
                W = rng.rand(n, n) * A
                if not directed:
                    W = np.maximum(W, W.T)
                net.set_link_attribute("w", W)
                Wi = (rng.randint(1, 9, size=(n, n)) * A).astype(float)
                if not directed:
                    Wi = np.maximum(Wi, Wi.T)
                net.set_link_attribute("wi", Wi)

                for di, direction in enumerate(DIRECTIONS):
                    for attr in ATTRS:
                        attempt(f"lap-{tag}-{silence}-{di}-{attr!r}",
                                lambda: net.laplacian(direction, attr))
                attempt(f"lap-{tag}-default", net.laplacian)
                attempt(f"lap-{tag}-kw",
                        lambda: net.laplacian(link_attribute=None,
                                              direction="in"))
                attempt(f"nsilap-{tag}", net.nsi_laplacian)

                for meth in ("degree", "indegree", "outdegree", "bildegree",
                             "nsi_degree", "nsi_indegree", "nsi_outdegree"):
                    f = getattr(net, meth)
                    for key in (None, "w", "wi", "missing", 0):
                        attempt(f"{meth}-{tag}-{key!r}", lambda: f(key))
                        attempt(f"{meth}-{tag}-{key!r}-kw",
                                lambda: f(key=key))
                    attempt(f"{meth}-{tag}-noarg", f)
                    # cache identity on repeated calls
                    attempt(f"{meth}-{tag}-same", lambda: f() is f())
                    attempt(f"{meth}-{tag}-samew", lambda: f("w") is f("w"))

                # derived quantities relying on the degree family
                for meth in ("degree_distribution", "indegree_distribution",
                             "outdegree_distribution", "degree_cdf",
                             "indegree_cdf", "outdegree_cdf"):
                    attempt(f"{meth}-{tag}", getattr(net, meth))

                # call sequences: mutate, then ask again
                d0 = net.degree()
                net.set_link_attribute("w", 2.0 * W)
                attempt(f"seq1-{tag}", lambda: net.degree() is d0)
                attempt(f"seq2-{tag}", lambda: net.outdegree("w"))
                attempt(f"seq3-{tag}", lambda: net.laplacian("in"))
                B = A.copy()
                if n > 2:
                    B[0, 1] = B[1, 0] = 1 - B[0, 1]
                net.adjacency = B
                attempt(f"seq4-{tag}", net.degree)
                attempt(f"seq5-{tag}", net.indegree)
                attempt(f"seq6-{tag}", net.outdegree)
                attempt(f"seq7-{tag}", lambda: net.laplacian("out"))
                attempt(f"seq8-{tag}", lambda: net.laplacian("in"))
                net.del_link_attribute("w")
                attempt(f"seq9-{tag}", lambda: net.indegree("w"))
                # results must not alias internal state
                L = net.laplacian()
                L[:] = 99
                k = net.outdegree().copy()
                attempt(f"seq10-{tag}", net.laplacian)
                attempt(f"seq11-{tag}", lambda: (net.outdegree() == k).all())

for name in ("SmallTestNetwork", "SmallDirectedTestNetwork"):
    net = getattr(Network, name)()
    for meth in ("laplacian", "degree", "indegree", "outdegree"):
        attempt(f"{name}-{meth}", getattr(net, meth))
    attempt(f"{name}-lap-in", lambda: net.laplacian("in"))
    attempt(f"{name}-str", lambda: net.outdegree("link_weights"))
    attempt(f"{name}-strin", lambda: net.indegree("link_weights"))
    attempt(f"{name}-strdeg", lambda: net.degree("link_weights"))

print(H.hexdigest())
