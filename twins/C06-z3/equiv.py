"""Equivalence digest for twin 3 (climate/_ext/src_numerics.c:
_mutual_information) - results and purity w.r.t. the anomaly argument."""
import hashlib
import io
import os
import tempfile
import contextlib
import numpy as np
from pyunicorn.climate._ext.numerics import mutual_information
from pyunicorn.climate.mutual_info import MutualInfoClimateNetwork
from pyunicorn.core._ext.types import to_cy, FIELD

H = hashlib.sha256()


def put(tag, obj):
    H.update(tag.encode())
    if isinstance(obj, np.ndarray):
        H.update(str(obj.dtype).encode() + str(obj.shape).encode())
        H.update(np.ascontiguousarray(obj).tobytes())
    else:
        H.update(repr(obj).encode())


def call(tag, f, *a, **k):
    buf = io.StringIO()
    try:
        with contextlib.redirect_stdout(buf), np.errstate(all="ignore"):
            res = f(*a, **k)
        put(tag, res)
    except BaseException as e:  # noqa
        put(tag, "EXC:" + type(e).__name__)
    put(tag + ":out", buf.getvalue())


def direct(tag, series, n_bins):
    """series: [node, time] float32, C-contiguous."""
    N, n_samples = series.shape
    before = series.copy()
    rmin = float(series.min())
    rmax = float(series.max())
    with np.errstate(all="ignore"):
        scaling = 1. / (rmax - rmin) if rmax != rmin else 1.0
    call(tag, mutual_information, series, n_samples, N, n_bins, scaling, rmin)
    put(tag + "-pure", bool(np.array_equal(before, series, equal_nan=True)))
    # repeated query returns an equal value
    call(tag + "-again", mutual_information, series, n_samples, N, n_bins,
         scaling, rmin)


rng = np.random.RandomState(20240611)
for N, T in [(1, 1), (1, 10), (2, 1), (2, 5), (3, 17), (5, 64), (8, 100),
             (13, 257), (20, 500), (4, 1000)]:
    for kind in ("normal", "uniform", "ties", "const-row", "heavy"):
        if kind == "normal":
            x = rng.randn(N, T)
        elif kind == "uniform":
            x = rng.rand(N, T)
        elif kind == "ties":
            x = rng.randint(0, 4, size=(N, T)).astype(float)
        elif kind == "const-row":
            x = rng.randn(N, T)
            x[0, :] = x.max()
        else:
            x = rng.standard_cauchy(size=(N, T))
        x = to_cy(x, FIELD)
        for n_bins in (1, 2, 7, 32, 100):
            direct(f"d|{N}|{T}|{kind}|{n_bins}", x, n_bins)

# error behaviour of the wrapper
x = to_cy(rng.randn(3, 20), FIELD)
for n_bins in (0, -3):
    call(f"err|{n_bins}", mutual_information, x, 20, 3, n_bins, 1.0, 0.0)
call("err|f64", mutual_information, rng.randn(3, 20), 20, 3, 8, 1.0, 0.0)
call("err|none", mutual_information, None, 20, 3, 8, 1.0, 0.0)
call("err|fortran", mutual_information, np.asfortranarray(x), 20, 3, 8, 1.0,
     0.0)
# N == 0
call("empty", mutual_information, np.zeros((0, 5), dtype=FIELD), 5, 0, 4,
     1.0, 0.0)

# through the public class: the anomaly handed in by the caller and the
# anomaly cached on the shared data object stay untouched
from pyunicorn.climate.climate_data import ClimateData  # noqa: E402
os.chdir(tempfile.mkdtemp())    # no stored MI file, nothing is dumped here
cd = ClimateData.SmallTestData()
net = MutualInfoClimateNetwork(cd, winter_only=False, threshold=0.5,
                               silence_level=2)
call("net-mi0", net.mutual_information, net.data.anomaly(), dump=False)
shared = net.data.anomaly()
shared_before = shared.copy()
for seed in range(6):
    r2 = np.random.RandomState(seed)
    T = [3, 10, 50, 200, 333, 1000][seed]
    anomaly = r2.randn(T, net.N) * (1 + seed)
    if seed % 2:
        anomaly[:, 1] = 0.0     # zero-variance node
    before = anomaly.copy()
    for n_bins in (4, 32):
        call(f"net|{seed}|{n_bins}",
             net._cython_calculate_mutual_information, anomaly, n_bins)
    call(f"net|{seed}|sim", net.calculate_similarity_measure, anomaly)
    put(f"net|{seed}|pure", bool(np.array_equal(before, anomaly)))
call("net-shared", net._cython_calculate_mutual_information, shared)
put("net-shared-pure", bool(np.array_equal(shared, shared_before)))
put("net-shared-same", bool(net.data.anomaly() is shared))
call("net-mi1", net.mutual_information, net.data.anomaly(), dump=False)
call("net-sim", net.similarity_measure)
put("files", sorted(os.listdir(".")))
call("net-adj", net.adjacency.copy)

print(H.hexdigest())
