"""Equivalence digest for twin_3 (Surrogates: white noise, correlated noise,
AAFT and refined AAFT surrogates)."""
import hashlib
import io
import contextlib
import warnings

import numpy as np

from pyunicorn.timeseries import Surrogates

warnings.simplefilter("ignore")
H = hashlib.sha256()
COUNT = [0]


def feed(tag, value):
    if isinstance(value, tuple):
        for i, v in enumerate(value):
            feed(f"{tag}[{i}]", v)
        return
    if isinstance(value, np.ndarray):
        payload = (str(value.dtype) + str(value.shape)
                   + str(value.flags.c_contiguous)).encode() \
            + np.ascontiguousarray(value).tobytes()
    else:
        payload = repr(value).encode()
    H.update(tag.encode() + b"|" + payload + b"\n")
    COUNT[0] += 1


def rng_state():
    st = np.random.get_state()
    return hashlib.sha256(st[1].tobytes() + repr(st[2:]).encode()).hexdigest()


def call(tag, seed, fn, *args, **kwargs):
    out = io.StringIO()
    np.random.seed(seed)
    try:
        with contextlib.redirect_stdout(out):
            res = fn(*args, **kwargs)
    except Exception as e:  # pylint: disable=broad-except
        res = "EXC:" + type(e).__name__
    feed(tag, res)
    feed(tag + ":stdout", out.getvalue())
    feed(tag + ":rng", rng_state())
    return res


def datasets():
    g = np.random.default_rng(31337)
    yield "small", Surrogates.SmallTestData().original_data
    for N in (1, 2, 5):
        for T in (2, 3, 8, 17, 64):
            yield f"f64:{N}x{T}", g.standard_normal((N, T))
    yield "f32", g.standard_normal((3, 20)).astype("float32")
    yield "int", g.integers(-5, 6, (4, 15))
    yield "ties", np.round(g.standard_normal((3, 12)))
    yield "fortran", np.asfortranarray(g.standard_normal((4, 11)))
    yield "view", g.standard_normal((8, 40))[::2, ::2]
    yield "T1", g.standard_normal((3, 1))
    yield "empty", np.zeros((0, 6))
    yield "complex", g.standard_normal((2, 9)) + 1j * g.standard_normal((2, 9))


with contextlib.redirect_stdout(io.StringIO()):
    data = list(datasets())

seed = 0
for name, x in data:
    for level in (0, 2):
        keep = x.copy()
        with contextlib.redirect_stdout(io.StringIO()):
            sur = Surrogates(original_data=x, silence_level=level)
        tag = f"{name}:{level}"
        fft0 = call(tag + ":fft0", seed, sur.original_data_fft)
        fft0_copy = fft0.copy() if isinstance(fft0, np.ndarray) else fft0
        steps = [
            ("white", sur.white_noise_surrogates, (), {}),
            ("corr", sur.correlated_noise_surrogates, (), {}),
            ("corr2", sur.correlated_noise_surrogates, (), {}),
            ("aaft", sur.AAFT_surrogates, (), {}),
            ("raaft0a", sur.refined_AAFT_surrogates, (0,), {}),
            ("raaft0s", sur.refined_AAFT_surrogates, (0,),
             {"output": "true_spectrum"}),
            ("raaft0b", sur.refined_AAFT_surrogates, (0, "both"), {}),
            ("raaft1", sur.refined_AAFT_surrogates, (1,), {}),
            ("raaft3a", sur.refined_AAFT_surrogates, (3, "true_amplitudes"),
             {}),
            ("raaft3s", sur.refined_AAFT_surrogates, (3, "true_spectrum"),
             {}),
            ("raaft3b", sur.refined_AAFT_surrogates, (3, "both"), {}),
            ("raaft2x", sur.refined_AAFT_surrogates, (2, "something else"),
             {}),
            ("raaft2n", sur.refined_AAFT_surrogates, (2, None), {}),
            ("white2", sur.white_noise_surrogates, (), {}),
        ]
        for sname, fn, args, kwargs in steps:
            seed += 1
            res = call(f"{tag}:{sname}", seed, fn, *args, **kwargs)
            # purity: inputs and memoised spectrum are untouched, the result
            # does not alias them
            feed(f"{tag}:{sname}:data", np.array_equal(x, keep))
            feed(f"{tag}:{sname}:databytes", x)
            try:
                with contextlib.redirect_stdout(io.StringIO()):
                    fft1 = sur.original_data_fft()
            except Exception as e:  # pylint: disable=broad-except
                fft1 = "EXC:" + type(e).__name__
            feed(f"{tag}:{sname}:fftid", fft1 is fft0)
            if isinstance(fft0, np.ndarray):
                feed(f"{tag}:{sname}:fft", np.array_equal(
                    fft1, fft0_copy, equal_nan=True))
            else:
                feed(f"{tag}:{sname}:fft", (fft0, fft1))
            for r in (res if isinstance(res, tuple) else (res,)):
                if isinstance(r, np.ndarray):
                    feed(f"{tag}:{sname}:alias", (
                        np.shares_memory(r, x),
                        isinstance(fft0, np.ndarray)
                        and np.shares_memory(r, fft0)))
        # the private helpers of the class must not disturb each other:
        # same seed -> same surrogate
        a = call(f"{tag}:repeat1", 4242, sur.AAFT_surrogates)
        b = call(f"{tag}:repeat2", 4242, sur.AAFT_surrogates)
        if isinstance(a, np.ndarray):
            feed(f"{tag}:repeat", np.array_equal(a, b, equal_nan=True))

print(COUNT[0], H.hexdigest())
