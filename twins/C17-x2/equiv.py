"""Digest of the Barabasi-Albert generator (own implementation) and of the
other model generators for fixed seeds."""
import contextlib
import hashlib
import io
import random as pyrandom

import numpy as np
import igraph
from scipy import sparse as sp

from pyunicorn.core.network import Network

H = hashlib.sha256()


def feed(*items):
    for x in items:
        if sp.issparse(x):
            H.update(type(x).__name__.encode())
            x = x.toarray()
        if isinstance(x, np.ndarray):
            H.update(str(x.dtype).encode())
            H.update(str(x.shape).encode())
            H.update(np.ascontiguousarray(x).tobytes())
        else:
            H.update(repr(x).encode())
        H.update(b"|")


def attempt(fun, *args, **kwargs):
    out = io.StringIO()
    try:
        with contextlib.redirect_stdout(out):
            res = fun(*args, **kwargs)
        return res, "ok", out.getvalue()
    except BaseException as e:  # pylint: disable=broad-except
        return None, "EXC:" + type(e).__name__, out.getvalue()


def reseed(seed):
    np.random.seed(seed)
    pyrandom.seed(seed)
    igraph.set_random_number_generator(pyrandom)


# own Barabasi-Albert implementation ------------------------------------------
cases = [(100, 5), (100, 1), (30, 3), (12, 2), (7, 6), (50, 0), (2, 1),
         (3, 1), (5, 4), (5, 5), (4, 6), (1, 1), (0, 0), (40, 7),
         (np.int64(25), np.int64(3)), (25, np.int32(2)), (20, 2.0),
         (6, -1), (10, "2")]
for N, m in cases:
    for seed in (0, 1, 2017):
        reseed(seed)
        A, status, text = attempt(Network.BarabasiAlbert, n_nodes=N,
                                  n_links_each=m)
        feed(repr(N), repr(m), seed, status, text)
        if A is not None:
            feed(A, A.dtype, A.shape, int(A.sum()),
                 np.asarray(A.sum(axis=0)).ravel())
        feed(np.random.random_sample(3))

# defaults and the Model() front end
for seed in (5, 6):
    reseed(seed)
    A, status, text = attempt(Network.BarabasiAlbert)
    feed(status, text, A, np.random.random_sample(2))
    reseed(seed)
    net, status, text = attempt(Network.Model, "BarabasiAlbert",
                                n_nodes=60, n_links_each=4)
    feed(status, text, net.adjacency, net.n_links, net.degree(),
         net.directed, np.random.random_sample(2))

# a larger instance using the int32 branch is too slow; exercise N close to
# the int16 limit only through the dtype of the result of a small graph
reseed(9)
A, status, text = attempt(Network.BarabasiAlbert, n_nodes=300, n_links_each=2)
feed(status, text, A, np.random.random_sample(2))

# the igraph based generators of the same block
for seed in (1, 2):
    for fun, kw in ((Network.ErdosRenyi, {"n_nodes": 30, "n_links": 40}),
                    (Network.ErdosRenyi,
                     {"n_nodes": 30, "link_probability": 0.2,
                      "silence_level": 1}),
                    (Network.ErdosRenyi, {"n_nodes": 30}),
                    (Network.ErdosRenyi,
                     {"n_nodes": 30, "n_links": 3, "link_probability": .1}),
                    (Network.BarabasiAlbert_igraph,
                     {"n_nodes": 40, "n_links_each": 3}),
                    (Network.Configuration, {"degree": [3] * 20}),
                    (Network.WattsStrogatz, {"N": 30, "k": 2, "p": 0.2})):
        reseed(seed)
        A, status, text = attempt(fun, **kw)
        feed(fun.__name__, status, text, A)

print(H.hexdigest())
