"""
Equivalence digest for property C11 (cross/internal measures of interacting
networks match sub-blocks).

Run as:  PYTHONPATH=<worktree>/src /venv/bin/python equiv.py

Exercises InteractingNetworks.subnetwork / internal_adjacency /
cross_adjacency(_sparse) / internal_link_attribute / cross_link_attribute /
internal_path_lengths / cross_path_lengths, the cross transitivity and
clustering kernels (compiled and '_sparse'), the n.s.i. kernels and the
derived scalar / local measures, on a spread of random directed and undirected
networks with sorted, shuffled, duplicated, empty and out-of-range node lists
given as lists, tuples, ranges and numpy arrays.  Prints one sha256 digest over
all results (full precision bytes, dtype, shape, memory layout flags) and over
the type names and messages of raised exceptions.
"""
import hashlib
import warnings

import numpy as np

from pyunicorn.core.interacting_networks import InteractingNetworks
from pyunicorn.core._ext.types import to_cy, ADJ, NODE, DWEIGHT, DFIELD
from pyunicorn.core._ext import numerics as cy

warnings.simplefilter("ignore")

H = hashlib.sha256()
N_ITEMS = [0]
N_EXC = [0]
EXC_LOG = []


def feed(tag, value):
    """Add a canonical byte representation of value to the digest."""
    N_ITEMS[0] += 1
    H.update(tag.encode())
    if isinstance(value, np.ndarray):
        H.update(str(value.dtype).encode())
        H.update(str(value.shape).encode())
        H.update(str((value.flags['C_CONTIGUOUS'],
                      value.flags['F_CONTIGUOUS'],
                      value.flags['OWNDATA'])).encode())
        if value.dtype == object:
            H.update(repr(value.tolist()).encode())
        else:
            H.update(np.ascontiguousarray(value).tobytes())
    elif isinstance(value, (float, np.floating)):
        H.update(type(value).__name__.encode())
        H.update(np.float64(value).tobytes())
    elif isinstance(value, (tuple, list)):
        H.update(type(value).__name__.encode())
        for k, v in enumerate(value):
            feed(f"{tag}[{k}]", v)
    else:
        H.update(type(value).__name__.encode())
        H.update(repr(value).encode())


def attempt(tag, fn, *args, **kwargs):
    """Call fn and digest its result or the type of the raised exception."""
    try:
        res = fn(*args, **kwargs)
    except BaseException as exc:  # pylint: disable=broad-except
        if isinstance(exc, (KeyboardInterrupt, SystemExit)):
            raise
        feed(tag + ":EXC", type(exc).__name__ + "|" + str(exc))
        N_EXC[0] += 1
        EXC_LOG.append((tag, type(exc).__name__))
        return None
    feed(tag, res)
    return res


def state(net):
    """Digest of the observable state of a network object."""
    return (net.N, net.n_links, bool(net.directed),
            net.sp_A.toarray(), np.array(net.node_weights),
            net.graph.get_edgelist(), sorted(net.graph.es.attributes()),
            net._mut_A, net._mut_nw, net._mut_la)


def make_net(rng, N, p, directed, weighted=True):
    A = (rng.random((N, N)) < p).astype(np.int8)
    np.fill_diagonal(A, 0)
    if not directed:
        A = np.triu(A, 1)
        A = A + A.T
    nw = rng.random(N) * 2 + 0.25
    net = InteractingNetworks(A, directed=directed, node_weights=nw,
                              silence_level=2)
    if weighted:
        W = rng.random((N, N)) * 3 + 0.1
        if not directed:
            W = (W + W.T) / 2
        net.set_link_attribute("w", W * A)
        net.set_link_attribute("iw", np.round(W * 4) * A)
    return net


def node_list_variants(rng, N):
    """Pairs of (mostly disjoint) node lists in various containers/orders."""
    perm = rng.permutation(N)
    k1 = int(rng.integers(1, max(2, N // 2)))
    k2 = int(rng.integers(1, max(2, N - k1)))
    a = [int(x) for x in perm[:k1]]
    b = [int(x) for x in perm[k1:k1 + k2]]
    out = [
        ("shuffled", a, b),
        ("sorted", sorted(a), sorted(b)),
        ("reversed", sorted(a, reverse=True), sorted(b, reverse=True)),
        ("ndarray", np.array(a), np.array(b)),
        ("int32", np.array(a, dtype=np.int32), np.array(b, dtype=np.int16)),
        ("tuple", tuple(a), tuple(b)),
        ("whole", list(range(N)), list(range(N))),
        ("whole_perm", [int(x) for x in perm], [int(x) for x in perm[::-1]]),
        ("range", range(0, N // 2), range(N // 2, N)),
        ("single", [a[0]], b),
        ("overlap", a + b[:1], b),
    ]
    return out


def odd_variants(N):
    return [
        ("empty1", [], [0, 1]),
        ("empty2", [0, 1], []),
        ("dup", [0, 0, 1], [2, 2]),
        ("dup_unsorted", [2, 0, 2, 1], [1, 3, 1]),
        ("oob", [0, N], [1, N + 3]),
        ("neg", [-1, 0], [1, -2]),
        ("float", [0.0, 1.0], [2.0]),
        ("str", ["a"], ["b"]),
        ("nested", [[0, 1]], [[2]]),
        ("nested2", [[0, 1], [2, 3]], [[1, 0], [3, 2]]),
        ("none", None, None),
        ("scalar", 1, 2),
        ("bool", [True, False], [False, True]),
        ("set", {0, 1}, {2}),
    ]


def exercise(tag, net, l1, l2, heavy=True):
    before = state(net)
    t = tag
    # --- sub-block extraction
    sub = attempt(t + "subnetwork", lambda: state(net.subnetwork(l1)))
    attempt(t + "subnetwork2", lambda: state(net.subnetwork(l2)))
    attempt(t + "subnetwork_type",
            lambda: type(net.subnetwork(l1)).__name__)
    del sub
    attempt(t + "int_adj1", net.internal_adjacency, l1)
    attempt(t + "int_adj2", net.internal_adjacency, l2)
    attempt(t + "cross_adj", net.cross_adjacency, l1, l2)
    attempt(t + "cross_adj_r", net.cross_adjacency, l2, l1)
    attempt(t + "cross_adj_kw",
            lambda: net.cross_adjacency(node_list1=l1, node_list2=l2))
    attempt(t + "cross_adj_sp", net.cross_adjacency_sparse, l1, l2)
    for name in ("w", "iw", "missing"):
        attempt(t + "int_la1" + name, net.internal_link_attribute, name, l1)
        attempt(t + "int_la2" + name, net.internal_link_attribute, name, l2)
        attempt(t + "cross_la" + name, net.cross_link_attribute, name, l1, l2)
    attempt(t + "int_la_kw", lambda: net.internal_link_attribute(
        attribute_name="w", node_list=l1))
    for la in (None, "w"):
        attempt(t + f"int_pl{la}", net.internal_path_lengths, l1, la)
        attempt(t + f"cross_pl{la}", net.cross_path_lengths, l1, l2, la)
        attempt(t + f"cross_pl_r{la}", net.cross_path_lengths, l2, l1, la)
    attempt(t + "cross_pl_kw", lambda: net.cross_path_lengths(
        node_list1=l1, node_list2=l2, link_attribute=None))
    # --- scalar statistics
    for m in ("number_cross_links", "total_cross_degree",
              "cross_degree_density", "cross_link_density"):
        attempt(t + m, getattr(net, m), l1, l2)
        attempt(t + m + "_r", getattr(net, m), l2, l1)
    for m in ("number_internal_links", "internal_link_density",
              "internal_global_clustering"):
        attempt(t + m, getattr(net, m), l1)
    # --- clustering / transitivity (compiled and sparse)
    for m in ("cross_global_clustering", "cross_transitivity",
              "cross_local_clustering"):
        attempt(t + m, getattr(net, m), l1, l2)
        attempt(t + m + "_r", getattr(net, m), l2, l1)
        if heavy:
            attempt(t + m + "_sp", getattr(net, m + "_sparse"), l1, l2)
    # --- path based
    for la in (None, "w"):
        for m in ("cross_average_path_length", "average_cross_closeness",
                  "global_efficiency", "cross_closeness", "local_efficiency"):
            attempt(t + m + str(la), getattr(net, m), l1, l2, la)
        for m in ("internal_average_path_length", "internal_closeness"):
            attempt(t + m + str(la), getattr(net, m), l1, la)
        for m in ("cross_degree", "cross_indegree", "cross_outdegree"):
            attempt(t + m + str(la), getattr(net, m), l1, l2, la)
        for m in ("internal_degree", "internal_indegree",
                  "internal_outdegree"):
            attempt(t + m + str(la), getattr(net, m), l1, la)
    if heavy:
        attempt(t + "cross_betw", net.cross_betweenness, l1, l2)
        attempt(t + "int_betw", net.internal_betweenness, l1)
    # --- n.s.i.
    for m in ("nsi_cross_degree", "nsi_cross_mean_degree",
              "nsi_cross_local_clustering", "nsi_cross_closeness_centrality",
              "nsi_cross_global_clustering", "nsi_cross_edge_density",
              "nsi_cross_transitivity", "nsi_cross_average_path_length"):
        attempt(t + m, getattr(net, m), l1, l2)
    if heavy:
        attempt(t + "nsi_cross_betw", net.nsi_cross_betweenness, l1, l2)
    for m in ("nsi_internal_degree", "nsi_internal_closeness_centrality",
              "nsi_internal_local_clustering"):
        attempt(t + m, getattr(net, m), l1)
    # --- object state must be untouched
    feed(t + "state_before", before)
    feed(t + "state_after", state(net))


def kernels_direct(rng):
    """Call the compiled kernels directly, incl. ill-formed arguments."""
    for case in range(12):
        N = int(rng.integers(3, 14))
        directed = bool(case % 2)
        A = (rng.random((N, N)) < 0.45).astype(np.int8)
        if not directed:
            A = np.triu(A, 1)
            A = A + A.T
        perm = rng.permutation(N)
        m = int(rng.integers(1, N))
        n1 = perm[:m].astype(NODE)
        n2 = perm[m:].astype(NODE)
        w = (rng.random(N) + 0.1).astype(DWEIGHT)
        Ac = to_cy(A, ADJ)
        t = f"K{case}:"
        attempt(t + "ct", cy._cross_transitivity, Ac, n1, n2)
        attempt(t + "ct_r", cy._cross_transitivity, Ac, n2, n1)
        attempt(t + "ct_all", cy._cross_transitivity, Ac,
                np.arange(N, dtype=NODE), np.arange(N, dtype=NODE))
        attempt(t + "ct_dup", cy._cross_transitivity, Ac, n1,
                np.concatenate([n2, n2]).astype(NODE))
        attempt(t + "nct", cy._nsi_cross_transitivity, Ac, n1, n2, w)
        for normkind in ("true", "ones", "zeros", "short", "long"):
            cd = A[n1, :][:, n2].sum(axis=1)
            norm = (cd * (cd - 1) / 2.).astype(DFIELD)
            if normkind == "ones":
                norm = np.ones(len(n1), dtype=DFIELD)
            elif normkind == "zeros":
                norm = np.zeros(len(n1), dtype=DFIELD)
            elif normkind == "short":
                norm = np.ones(max(len(n1) - 1, 0), dtype=DFIELD)
            elif normkind == "long":
                norm = np.full(len(n1) + 2, 0.5, dtype=DFIELD)
            out = np.full(len(n1), -1.0, dtype=DFIELD)
            attempt(t + "clc" + normkind, cy._cross_local_clustering,
                    Ac, norm, n1, n2, out)
            feed(t + "clc_out" + normkind, out)
            out = np.full(max(len(n1) - 1, 0), -1.0, dtype=DFIELD)
            attempt(t + "clc_shortout" + normkind,
                    cy._cross_local_clustering, Ac, norm, n1, n2, out)
            feed(t + "clc_shortout_res" + normkind, out)
        out = np.zeros(len(n1), dtype=DFIELD)
        attempt(t + "nclc", cy._nsi_cross_local_clustering, Ac, out, n1, n2, w)
        feed(t + "nclc_out", out)
        # ill-formed: out-of-range nodes, non-square A, negative indices
        bad2 = n2.copy()
        bad2[-1] = N + 2
        bad1 = n1.copy()
        bad1[0] = N
        neg2 = n2.copy()
        neg2[0] = -1
        rect_a = np.ascontiguousarray(Ac[:max(N - 2, 1), :])
        rect_b = np.ascontiguousarray(Ac[:, :max(N - 2, 1)])
        ones_a = np.ones((max(N - 2, 1), N), dtype=ADJ)
        ones_b = np.ones((N, max(N - 2, 1)), dtype=ADJ)
        allN = np.arange(N, dtype=NODE)
        for nm, AA, x1, x2 in (
                ("bad2", Ac, n1, bad2), ("bad1", Ac, bad1, n2),
                ("neg2", Ac, n1, neg2), ("rect_a", rect_a, n1, n2),
                ("rect_b", rect_b, n1, n2), ("ones_a", ones_a, allN, allN),
                ("ones_b", ones_b, allN, allN),
                ("ones_a_p", ones_a, perm.astype(NODE),
                 perm[::-1].astype(NODE)),
                ("ones_b_p", ones_b, perm.astype(NODE),
                 perm[::-1].astype(NODE)),
                ("empty1", Ac, np.zeros(0, dtype=NODE), n2),
                ("empty2", Ac, n1, np.zeros(0, dtype=NODE))):
            attempt(t + "ct" + nm, cy._cross_transitivity, AA, x1, x2)
            out = np.full(len(x1), -1.0, dtype=DFIELD)
            attempt(t + "clc" + nm, cy._cross_local_clustering, AA,
                    np.ones(len(x1), dtype=DFIELD), x1, x2, out)
            feed(t + "clc_out" + nm, out)
        # wrong dtypes / None
        attempt(t + "ct_f", cy._cross_transitivity, A.astype(float), n1, n2)
        attempt(t + "ct_none", cy._cross_transitivity, Ac, None, n2)
        attempt(t + "ct_none2", cy._cross_transitivity, None, n1, n2)
        attempt(t + "clc_none", cy._cross_local_clustering, Ac, None, n1, n2,
                np.zeros(len(n1), dtype=DFIELD))


def main():
    import contextlib
    import io
    with contextlib.redirect_stdout(io.StringIO()):
        run()
    print("items", N_ITEMS[0], "exceptions", N_EXC[0])
    print("digest", H.hexdigest())


def run():
    rng = np.random.default_rng(20240611)
    # the documented small test networks
    for nm, net in (("small", InteractingNetworks.SmallTestNetwork()),
                    ("smalld",
                     InteractingNetworks.SmallDirectedTestNetwork())):
        for vn, l1, l2 in (("a", [0, 3, 5], [1, 2, 4]),
                           ("b", [5, 0, 3], [4, 1, 2]),
                           ("c", [1, 2, 3, 4], [0, 5]),
                           ("d", [2], [1, 3, 4])):
            exercise(f"{nm}/{vn}:", net, l1, l2)
        attempt(nm + "la", net.internal_link_attribute, "link_weights",
                [3, 1, 2])
        attempt(nm + "cla", net.cross_link_attribute, "link_weights",
                [3, 1, 2], [4, 0])
    # random networks
    case = 0
    for directed in (False, True):
        for N, p in ((5, 0.6), (8, 0.35), (11, 0.5), (14, 0.2), (9, 0.0),
                     (7, 1.0)):
            net = make_net(rng, N, p, directed)
            for vn, l1, l2 in node_list_variants(rng, N):
                case += 1
                exercise(f"R{case}/{directed}/{N}/{vn}:", net, l1, l2,
                         heavy=(N <= 11))
            if N in (8, 11):
                for vn, l1, l2 in odd_variants(N):
                    case += 1
                    exercise(f"O{case}/{directed}/{N}/{vn}:", net, l1, l2,
                             heavy=False)
    # a network without link attributes, string-valued attribute, None values
    net = make_net(rng, 7, 0.5, False, weighted=False)
    exercise("noattr:", net, [4, 1, 6], [0, 5])
    net.graph.es["label"] = [f"e{k}" for k in range(net.graph.ecount())]
    attempt("strattr", net.internal_link_attribute, "label", [4, 1, 6, 0])
    attempt("strattr_x", net.cross_link_attribute, "label", [4, 1], [6, 0])
    if net.graph.ecount():
        net.graph.es[0]["partial"] = 2.5
    attempt("partial", net.internal_link_attribute, "partial",
            list(range(7))[::-1])
    attempt("partial_x", net.cross_link_attribute, "partial", [0, 1, 2],
            [3, 4, 5, 6])
    # interplay with mutation of the network between calls
    net = make_net(rng, 8, 0.5, False)
    l1, l2 = [6, 2, 0], [7, 1, 3, 5]
    exercise("mut0:", net, l1, l2)
    A = net.adjacency
    A[6, 7] = A[7, 6] = 1 - A[6, 7]
    A[2, 0] = A[0, 2] = 1 - A[2, 0]
    net.adjacency = A
    exercise("mut1:", net, l1, l2)
    net.node_weights = np.arange(1, 9) / 3.
    exercise("mut2:", net, l1, l2)
    kernels_direct(rng)


if __name__ == "__main__":
    main()
