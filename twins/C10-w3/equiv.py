"""Equivalence digest for twin_3 (surrogate MI test matrix kernel)."""
import hashlib
import io
import contextlib

import numpy as np

from pyunicorn.timeseries import Surrogates
from pyunicorn.timeseries._ext.numerics import _test_mutual_information
from pyunicorn.core._ext.types import to_cy, DFIELD

H = hashlib.sha256()


def feed(tag, obj):
    H.update(tag.encode())
    if isinstance(obj, tuple):
        for k, o in enumerate(obj):
            feed(f"{tag}[{k}]", o)
    elif isinstance(obj, np.ndarray):
        H.update(str(obj.dtype).encode())
        H.update(str(obj.shape).encode())
        H.update(np.ascontiguousarray(obj).tobytes())
    else:
        H.update(repr(obj).encode())


def run(tag, func, *args, **kwargs):
    out = io.StringIO()
    try:
        with contextlib.redirect_stdout(out), np.errstate(all="ignore"):
            res = func(*args, **kwargs)
        feed(tag, res)
    except BaseException as e:  # pylint: disable=broad-except
        feed(tag, ("EXC", type(e).__name__, str(e)))
    feed(tag + ":stdout", out.getvalue())


def normalize(a):
    a = a - a.mean(axis=1, keepdims=True)
    with np.errstate(all="ignore"):
        a = a / a.std(axis=1, keepdims=True)
    a[np.isnan(a)] = 0
    return a


rng = np.random.RandomState(99)

for N, n_time in ((1, 9), (2, 2), (3, 17), (6, 50), (10, 300), (13, 64),
                  (0, 4), (4, 1)):
    for kind in ("normal", "ar", "ties", "const-row", "nan"):
        o = rng.randn(N, n_time)
        s = rng.randn(N, n_time)
        if kind == "ar":
            o = np.cumsum(o, axis=1)
            s = o[:, ::-1] + 0.3 * s
        elif kind == "ties":
            o = rng.randint(0, 4, size=(N, n_time)).astype(float)
            s = rng.randint(-2, 2, size=(N, n_time)).astype(float)
        elif kind == "const-row" and N:
            o[0, :] = 3.0
            s[-1, :] = -1.0
        elif kind == "nan" and o.size:
            s.flat[s.size // 3] = np.nan
        for norm in (False, True):
            if norm and kind != "nan":
                o, s = normalize(o), normalize(s)
            ko, ks = o.copy(), s.copy()
            for n_bins in (32, 1, 2, 5, 0, -1):
                tag = f"tmi/{N}/{n_time}/{kind}/{norm}/{n_bins}"
                run(tag, Surrogates.test_mutual_information, o, s,
                    n_bins=n_bins)
                run(tag + "/swap", Surrogates.test_mutual_information, s, o,
                    n_bins=n_bins)
                run(tag + "/self", Surrogates.test_mutual_information, o, o,
                    n_bins=n_bins)
            run(f"tmi/{N}/{n_time}/{kind}/{norm}/default",
                Surrogates.test_mutual_information, o, s)
            run(f"tpc/{N}/{n_time}/{kind}/{norm}",
                Surrogates.test_pearson_correlation, o, s)
            feed(f"in/{N}/{n_time}/{kind}/{norm}",
                 (bool(np.array_equal(ko, o, equal_nan=True)),
                  bool(np.array_equal(ks, s, equal_nan=True))))

# dtype / layout / error handling of the hand-over
a = rng.randn(5, 40)
b = rng.randn(5, 40)
run("f32", Surrogates.test_mutual_information, a.astype("float32"),
    b.astype("float32"), 8)
run("int", Surrogates.test_mutual_information,
    rng.randint(0, 9, (4, 30)), rng.randint(0, 9, (4, 30)), 6)
run("fortran", Surrogates.test_mutual_information, np.asfortranarray(a),
    np.asfortranarray(b), 8)
run("strided", Surrogates.test_mutual_information, a[:, ::2], b[:, ::2], 8)
run("shape", Surrogates.test_mutual_information, a, b[:, :-1], 8)
run("shape2", Surrogates.test_mutual_information, a, b.T, 8)
run("1d", Surrogates.test_mutual_information, a[0], b[0], 8)
run("3d", Surrogates.test_mutual_information, a.reshape(5, 4, 10),
    b.reshape(5, 4, 10), 8)
run("list", Surrogates.test_mutual_information, a.tolist(), b.tolist(), 8)
run("binsf", Surrogates.test_mutual_information, a, b, 8.5)
run("raw", _test_mutual_information, to_cy(a, DFIELD), to_cy(b, DFIELD),
    5, 40, 16)
run("raw/none", _test_mutual_information, None, to_cy(b, DFIELD), 5, 40, 16)

# through the significance-test driver
for seed in (1, 2):
    np.random.seed(seed)
    sur = Surrogates(original_data=np.random.randn(6, 80), silence_level=2)
    run(f"orig/{seed}", sur.original_distribution,
        Surrogates.test_mutual_information, n_bins=20)
    np.random.seed(seed + 10)
    run(f"sig/{seed}", sur.test_threshold_significance,
        Surrogates.white_noise_surrogates,
        Surrogates.test_mutual_information, realizations=3, n_bins=15,
        interval=(0, 2))
    feed(f"sig-data/{seed}", sur.original_data)

print(H.hexdigest())
