"""Digest of the compiled recurrence kernels (embedding, rp/crp distance
matrices, adaptive neighbourhood) on a spread of seeded inputs."""
import hashlib
import io
import contextlib

import numpy as np

from pyunicorn.timeseries._ext.numerics import (
    _embed_time_series, _manhattan_distance_matrix_rp,
    _euclidean_distance_matrix_rp, _supremum_distance_matrix_rp,
    _manhattan_distance_matrix_crp, _euclidean_distance_matrix_crp,
    _supremum_distance_matrix_crp, _set_adaptive_neighborhood_size)
from pyunicorn.timeseries import RecurrencePlot, CrossRecurrencePlot, \
    RecurrenceNetwork

H = hashlib.sha256()


def put(tag, obj):
    H.update(tag.encode())
    if isinstance(obj, np.ndarray):
        H.update(str(obj.dtype).encode())
        H.update(str(obj.shape).encode())
        H.update(np.ascontiguousarray(obj).tobytes())
    else:
        H.update(repr(obj).encode())


def attempt(tag, fn):
    try:
        with contextlib.redirect_stdout(io.StringIO()):
            res = fn()
        put(tag, res)
    except Exception as e:  # pylint: disable=broad-except
        put(tag, "EXC:" + type(e).__name__ + ":" + str(e))


rng = np.random.RandomState(20240707)

# --- embedding kernel -------------------------------------------------------
for n_time in (1, 2, 7, 40):
    for dim in (1, 2, 3, 5):
        for tau in (0, 1, 2, 4):
            ts = rng.standard_normal(n_time).astype("float32")
            ts[rng.rand(n_time) < 0.1] = np.nan
            L = n_time - (dim - 1) * tau

            def run(ts=ts, n_time=n_time, dim=dim, tau=tau, L=L):
                emb = np.full((L, dim), -7.0, dtype="float32")
                _embed_time_series(n_time, dim, tau, ts, emb)
                return emb
            attempt(f"emb{n_time},{dim},{tau}", run)
            attempt(f"EMB{n_time},{dim},{tau}",
                    lambda ts=ts, dim=dim, tau=tau:
                    RecurrencePlot.embed_time_series(ts, dim, tau))

# inconsistent arguments: partial writes and the error are observable
for (n_time, dim, tau, L, D) in ((10, 3, 2, 4, 3), (10, 3, 2, 6, 2),
                                 (5, 2, 1, 9, 2), (10, 2, -1, 11, 2),
                                 (10, 3, 2, 6, 4)):
    ts = rng.standard_normal(8).astype("float32")
    emb = np.full((L, D), -7.0, dtype="float32")
    attempt(f"embbad{n_time},{dim},{tau},{L},{D}",
            lambda: _embed_time_series(n_time, dim, tau, ts, emb))
    put("embbad-state", emb)

# --- distance kernels -------------------------------------------------------
RP_K = (_manhattan_distance_matrix_rp, _euclidean_distance_matrix_rp,
        _supremum_distance_matrix_rp)
CRP_K = (_manhattan_distance_matrix_crp, _euclidean_distance_matrix_crp,
         _supremum_distance_matrix_crp)


def make(n, d, special):
    a = rng.standard_normal((n, d)) * 10.0 ** rng.randint(-3, 4)
    if special and a.size:
        m = rng.rand(n, d)
        a[m < 0.08] = np.nan
        a[(m >= 0.08) & (m < 0.12)] = np.inf
        a[(m >= 0.12) & (m < 0.16)] = -np.inf
        a[(m >= 0.16) & (m < 0.2)] = -0.0
    return np.ascontiguousarray(a)


for n in (0, 1, 2, 5, 23):
    for d in (0, 1, 2, 4):
        for special in (False, True):
            x = make(n, d, special)
            y = make(max(n - 2, 0) + 3, d, special)
            for f in RP_K:
                attempt(f"rp{f.__name__}{n},{d},{special}",
                        lambda f=f, x=x, n=n, d=d: f(n, d, x))
                # non-contiguous view is accepted by the rp kernels
                xx = np.asfortranarray(x)
                attempt(f"rpF{f.__name__}{n},{d},{special}",
                        lambda f=f, xx=xx, n=n, d=d: f(n, d, xx))
            for f in CRP_K:
                attempt(f"crp{f.__name__}{n},{d},{special}",
                        lambda f=f, x=x, y=y, d=d:
                        f(x.shape[0], y.shape[0], d, x, y))

# argument mismatches
x = make(6, 3, False)
y = make(4, 3, False)
for f in RP_K:
    attempt("rpbad1" + f.__name__, lambda f=f: f(7, 3, x))
    attempt("rpbad2" + f.__name__, lambda f=f: f(6, 4, x))
    attempt("rpbad3" + f.__name__, lambda f=f: f(3, 2, x))
    attempt("rpbad4" + f.__name__, lambda f=f: f(8, 5, x))
    attempt("rpbad5" + f.__name__, lambda f=f: f(-1, 3, x))
    attempt("rpbad6" + f.__name__, lambda f=f: f(6, 3, None))
    attempt("rpbad7" + f.__name__,
            lambda f=f: f(6, 3, x.astype("float32")))
for f in CRP_K:
    attempt("crpbad1" + f.__name__, lambda f=f: f(7, 4, 3, x, y))
    attempt("crpbad2" + f.__name__, lambda f=f: f(6, 5, 3, x, y))
    attempt("crpbad3" + f.__name__, lambda f=f: f(6, 4, 4, x, y))
    attempt("crpbad4" + f.__name__, lambda f=f: f(2, 3, 1, x, y))
    attempt("crpbad5" + f.__name__, lambda f=f: f(6, 4, 3, x, None))
    attempt("crpbad6" + f.__name__,
            lambda f=f: f(6, 4, 3, np.asfortranarray(x), y))

# --- adaptive neighbourhood kernel -----------------------------------------
for n in (2, 3, 6, 17):
    for trial in range(3):
        emb = make(n, 2, False)
        dist = _euclidean_distance_matrix_rp(n, 2, emb)
        if trial == 2:
            dist = np.round(dist)          # many ties
        sn = dist.argsort(axis=1).astype("int32")
        for size in range(0, n + 1):
            for order in (np.arange(n, dtype="int32"),
                          rng.permutation(n).astype("int32"),
                          rng.randint(0, n, size=n).astype("int32")):
                rec = np.zeros((n, n), dtype="int8")
                attempt(f"ad{n},{trial},{size}",
                        lambda: _set_adaptive_neighborhood_size(
                            n, size, sn, order, rec))
                put("ad-state", rec)
        # pre-populated recurrence matrix
        rec = (rng.rand(n, n) < 0.3).astype("int8")
        attempt(f"adpre{n},{trial}",
                lambda: _set_adaptive_neighborhood_size(
                    n, 1, sn, np.arange(n, dtype="int32"), rec))
        put("adpre-state", rec)
# mismatching shapes
sn = np.zeros((4, 3), dtype="int32")
rec = np.zeros((4, 4), dtype="int8")
attempt("adbad1", lambda: _set_adaptive_neighborhood_size(
    4, 2, sn, np.arange(4, dtype="int32"), rec))
put("adbad1-state", rec)
sn = np.tile(np.array([0, 1, 2, 5], dtype="int32"), (4, 1))
rec = np.zeros((4, 4), dtype="int8")
attempt("adbad2", lambda: _set_adaptive_neighborhood_size(
    4, 3, sn, np.arange(4, dtype="int32"), rec))
put("adbad2-state", rec)
rec = np.zeros((3, 6), dtype="int8")
attempt("adbad3", lambda: _set_adaptive_neighborhood_size(
    4, 2, sn, np.array([0, 2, 1, 3], dtype="int32"), rec))
put("adbad3-state", rec)

# --- through the public classes --------------------------------------------
for metric in ("manhattan", "euclidean", "supremum"):
    for n, d in ((12, 1), (30, 3)):
        x = make(n, d, False)
        y = make(n + 4, d, False)
        xm = x.copy()
        xm[3, 0] = np.nan
        for kw in ({"threshold": 0.8}, {"recurrence_rate": 0.2},
                   {"local_recurrence_rate": 0.2},
                   {"adaptive_neighborhood_size": 3},
                   {"threshold_std": 0.5, "dim": 2, "tau": 2}):
            if "dim" in kw and d != 1:
                continue
            attempt(f"RP{metric}{n}{sorted(kw)}",
                    lambda: RecurrencePlot(x, metric=metric, silence_level=2,
                                           **kw).recurrence_matrix())
            attempt(f"RPm{metric}{n}{sorted(kw)}",
                    lambda: RecurrencePlot(xm, metric=metric, silence_level=2,
                                           missing_values=True,
                                           **kw).recurrence_matrix())
            attempt(f"RN{metric}{n}{sorted(kw)}",
                    lambda: RecurrenceNetwork(
                        x, metric=metric, silence_level=2,
                        **kw).adjacency)
        attempt(f"CRP{metric}{n}",
                lambda: CrossRecurrencePlot(
                    x, y, metric=metric, silence_level=2,
                    threshold=1.0).recurrence_matrix())
        attempt(f"CRPr{metric}{n}",
                lambda: CrossRecurrencePlot(
                    x, y, metric=metric, silence_level=2,
                    recurrence_rate=0.15).recurrence_matrix())

print(H.hexdigest())
