"""Equivalence digest for twin_1 (analysis dispatch, symmetrisation table,
pairwise matrix assembly)."""
import hashlib
import warnings

import numpy as np

from pyunicorn.eventseries import EventSeries

warnings.simplefilter("ignore")
H = hashlib.sha256()


def put(tag, val):
    if isinstance(val, np.ndarray):
        H.update(f"{tag}|{val.dtype}|{val.shape}|".encode())
        H.update(np.ascontiguousarray(val).tobytes())
    else:
        H.update(f"{tag}|{type(val).__name__}|{val!r}".encode())


def attempt(tag, fun):
    try:
        put(tag, fun())
    except Exception as exc:  # pylint: disable=broad-except
        put(tag + "!exc", (type(exc).__name__, str(exc)))


METHODS = ['ES', 'ECA', 'es', None, 'XY', np.str_('ES'), np.array('ECA')]
SYMS = ['directed', 'symmetric', 'antisym', 'mean', 'max', 'min', 'foo',
        None, np.str_('mean')]
WINS = ['retarded', 'advanced', 'symmetric', 'bar', None]

rng = np.random.RandomState(20160)
case = 0
for T, N, p in [(40, 3, 0.3), (60, 5, 0.2), (25, 4, 0.5), (80, 2, 0.15),
                (30, 6, 0.4)]:
    for with_ts in (False, True):
        for taumax, lag in [(np.inf, 0.0), (3.0, 0.0), (2, 1), (5.5, 0.5),
                            (0, 0), (float('inf'), 1.0)]:
            case += 1
            mat = (rng.rand(T, N) < p).astype(int)
            mat[0, 0], mat[1, 0] = 0, 1
            ts = None
            if with_ts:
                ts = np.cumsum(rng.randint(1, 4, size=T)).astype(float)
            es = EventSeries(mat, timestamps=ts, taumax=taumax, lag=lag)
            put(f"{case}keys", list(es.symmetrization_options))
            put(f"{case}ident", [
                es.symmetrization_options[k]
                is getattr(EventSeries, "_symmetrization_" + k)
                for k in es.symmetrization_options])
            put(f"{case}str", str(es))
            for m in METHODS:
                for s in SYMS:
                    for w in WINS:
                        # two calls: second one goes through the cache
                        for rep in range(2):
                            attempt(f"{case}{m!r}{s!r}{w!r}{rep}",
                                    lambda: es.event_series_analysis(
                                        method=m, symmetrization=s,
                                        window_type=w))
            attempt(f"{case}nES", es._ndim_event_synchronization)
            for w in WINS:
                attempt(f"{case}nECA{w}", lambda: (
                    es._ndim_event_coincidence_analysis(window_type=w)))
            put(f"{case}cachedsame", es._ndim_event_synchronization()
                is es._ndim_event_synchronization())
            # fresh dict per instance, user-editable
            es.symmetrization_options.pop('max')
            attempt(f"{case}popped", lambda: es.event_series_analysis(
                method='ES', symmetrization='max'))
            es2 = EventSeries(mat, timestamps=ts, taumax=taumax, lag=lag)
            put(f"{case}fresh", list(es2.symmetrization_options))

# degenerate sizes
for mat in [np.array([[0], [1], [1], [0]]),
            np.array([[0, 1], [1, 0]]),
            np.array([[1, 1, 0], [0, 0, 1], [1, 0, 1]])]:
    es = EventSeries(mat, taumax=1.0)
    for m in ('ES', 'ECA'):
        for s in ('directed', 'mean', 'antisym'):
            attempt(f"deg{mat.shape}{m}{s}", lambda: es.event_series_analysis(
                method=m, symmetrization=s))

print(H.hexdigest())
