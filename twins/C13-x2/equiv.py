"""Equivalence digest for property C13 (data windows / anomalies).

Run as: PYTHONPATH=<worktree>/src /venv/bin/python equiv.py
Prints a sha256 digest over all results, object states, captured stdout and
exception types; it must be identical on the pristine and refactored tree.
"""
import contextlib
import hashlib
import io
import warnings

import numpy as np

from pyunicorn.core import Data, GeoGrid
from pyunicorn.climate.climate_data import ClimateData

warnings.simplefilter("ignore")
H = hashlib.sha256()
LOG = []


def put(tag, obj):
    if isinstance(obj, np.ndarray):
        s = (f"{tag}|nd|{obj.dtype}|{obj.shape}|"
             f"{obj.flags['C_CONTIGUOUS']}|{obj.flags['F_CONTIGUOUS']}|"
             f"{obj.flags['OWNDATA']}|")
        H.update(s.encode())
        H.update(np.ascontiguousarray(obj).tobytes())
        LOG.append(s + hashlib.sha256(
            np.ascontiguousarray(obj).tobytes()).hexdigest()[:12])
    elif isinstance(obj, dict):
        for k in obj:          # keeps insertion order in the digest
            put(f"{tag}.{k}", obj[k])
    else:
        s = f"{tag}|{type(obj).__name__}|{obj!r}"
        H.update(s.encode())
        LOG.append(s)


def attempt(tag, fn):
    buf = io.StringIO()
    try:
        with contextlib.redirect_stdout(buf):
            res = fn()
        put(tag, res)
    except BaseException as e:  # pylint: disable=broad-except
        put(tag + "!exc", f"{type(e).__name__}:{e}")
    put(tag + ".stdout", buf.getvalue())


def state(tag, d):
    put(tag + ".obs", d.observable())
    put(tag + ".obs_is_full", d.observable() is d._full_observable)
    put(tag + ".grid", d.grid.grid())
    put(tag + ".size", dict(d.grid.grid_size()))
    put(tag + ".bounds", d.grid.boundaries())
    put(tag + ".window", d.window())
    put(tag + ".N", (d.grid.N, d.grid.n_grid_points, d.grid.silence_level))
    put(tag + ".fullgrid", d._full_grid.grid())
    put(tag + ".full", d._full_observable)
    if isinstance(d, ClimateData):
        put(tag + ".mut", d._mut_window)
        put(tag + ".cstate", d.__cache_state__())
        put(tag + ".attrs", sorted(k for k in vars(d)))


def make(seed, n_time, n_space, dtype="float64", shuffle=True):
    rng = np.random.RandomState(seed)
    time = np.arange(n_time) * 1.5 + rng.randint(0, 3)
    lat = rng.uniform(-80, 80, n_space).round(1)
    lon = rng.uniform(-170, 170, n_space).round(1)
    if not shuffle:
        lat.sort()
    obs = rng.standard_normal((n_time, n_space)).astype(dtype)
    return obs, GeoGrid(time, lat, lon, 2)


def windows(grid, rng):
    g = grid.grid()
    t, la, lo = g["time"], g["lat"], g["lon"]
    out = [
        {"time_min": 0., "time_max": 0., "lat_min": 0., "lat_max": 0.,
         "lon_min": 0., "lon_max": 0.},
        {"time_min": float(t[1]), "time_max": float(t[-2]),
         "lat_min": -40., "lat_max": 40., "lon_min": -90., "lon_max": 120.},
        # closed bounds hitting samples exactly
        {"time_min": float(t[2]), "time_max": float(t[5]),
         "lat_min": float(np.sort(la)[1]), "lat_max": float(np.sort(la)[-2]),
         "lon_min": float(np.sort(lo)[1]), "lon_max": float(np.sort(lo)[-2])},
        # equal time bounds only
        {"time_min": 3., "time_max": 3., "lat_min": -50., "lat_max": 60.,
         "lon_min": -150., "lon_max": 150.},
        # equal lat bounds -> full space even though lon is restricted
        {"time_min": float(t[0]), "time_max": float(t[4]), "lat_min": 7.,
         "lat_max": 7., "lon_min": -10., "lon_max": 10.},
        # equal lon bounds -> full space
        {"time_min": float(t[3]), "time_max": 1e9, "lat_min": -10.,
         "lat_max": 10., "lon_min": 5, "lon_max": 5.0},
        # integer / numpy scalar bounds
        {"time_min": np.float32(t[1]), "time_max": np.int64(t[6]) + 1,
         "lat_min": -80, "lat_max": 80, "lon_min": -170, "lon_max": 170},
    ]
    for _ in range(4):
        a, b = np.sort(rng.choice(t, 2, replace=False))
        l1, l2 = np.sort(rng.uniform(-80, 80, 2))
        m1, m2 = np.sort(rng.uniform(-170, 170, 2))
        out.append({"time_min": float(a), "time_max": float(b),
                    "lat_min": float(l1) - 30, "lat_max": float(l2) + 30,
                    "lon_min": float(m1) - 60, "lon_max": float(m2) + 60})
    return out


BAD_WINDOWS = [
    {},                                                    # KeyError time_min
    {"time_min": 1.},                                      # KeyError time_max
    {"time_min": 0., "time_max": 0.},                      # KeyError lat_min
    {"time_min": 0., "time_max": 0., "lat_min": 1., "lat_max": 1.},   # works!
    {"time_min": 0., "time_max": 0., "lat_min": 1., "lat_max": 2.},
    {"time_min": 0., "time_max": 0., "lat_min": 1., "lat_max": 2.,
     "lon_min": 0.},
    {"time_min": 1., "time_max": 2., "lat_max": 2., "lon_min": 0.},
    # empty selections -> GeoGrid construction fails
    {"time_min": 1e6, "time_max": 2e6, "lat_min": 0., "lat_max": 0.,
     "lon_min": 0., "lon_max": 0.},
    {"time_min": 0., "time_max": 0., "lat_min": 500., "lat_max": 600.,
     "lon_min": 0., "lon_max": 1.},
    {"time_min": None, "time_max": 2., "lat_min": 0., "lat_max": 0.,
     "lon_min": 0., "lon_max": 0.},
    {"time_min": 0., "time_max": 0., "lat_min": "a", "lat_max": 2.,
     "lon_min": 0., "lon_max": 1.},
    {"time_min": np.array([1., 2.]), "time_max": 5., "lat_min": 0.,
     "lat_max": 0., "lon_min": 0., "lon_max": 0.},
    None,
    [0., 0., 0., 0., 0., 0.],
]


def run_data(seed):
    rng = np.random.RandomState(1000 + seed)
    obs, grid = make(seed, 20 + seed, 9 + 2 * seed,
                     dtype=("float64", "float32")[seed % 2])
    ws = windows(grid, rng)
    # constructor with / without a window
    attempt(f"D{seed}.ctor0", lambda: state(f"D{seed}.ctor0", Data(
        obs, grid, silence_level=2)))
    for k, w in enumerate(ws):
        tag = f"D{seed}.w{k}"

        def ctor(w=w, tag=tag):
            d = Data(obs, grid, "x", "long x", window=w, silence_level=1)
            state(tag + ".ctor", d)
            return str(d)
        attempt(tag + ".ctor", ctor)
    d = Data(obs, grid, silence_level=2)
    for k, w in enumerate(ws):
        tag = f"D{seed}.seq{k}"
        wcopy = dict(w)
        attempt(tag, lambda w=w: d.set_window(w))
        put(tag + ".w_unchanged", repr(w) == repr(wcopy))
        state(tag, d)
        if k % 3 == 2:
            attempt(tag + ".glob", d.set_global_window)
            state(tag + ".glob", d)
    for k, w in enumerate(BAD_WINDOWS):
        tag = f"D{seed}.bad{k}"
        attempt(tag, lambda w=w: d.set_window(w))
        state(tag, d)
        attempt(tag + ".ctor", lambda w=w: state(
            tag + ".ctor", Data(obs, grid, window=w, silence_level=2)))


class Recording(ClimateData):
    """Subclass recording the windows passed through set_window."""
    def __init__(self, *a, **k):
        self.seen = []
        ClimateData.__init__(self, *a, **k)

    def set_window(self, window):
        # snapshot taken before mutating: a leaked "extra" key would show up
        self.seen.append(dict(window))
        window["extra"] = 1     # mutating the passed dict must stay harmless
        ClimateData.set_window(self, window)


def climate_products(tag, c):
    attempt(tag + ".pm", c.phase_mean)
    attempt(tag + ".an", c.anomaly)
    attempt(tag + ".pm2", c.phase_mean)       # cached: no message now
    attempt(tag + ".an2", c.anomaly)

    def checks():
        a, p, o = c.anomaly(), c.phase_mean(), c.observable()
        tc = c.time_cycle
        return (a is c.anomaly(), p is c.phase_mean(), a is o,
                a.shape == o.shape, p.shape == (tc, o.shape[1]),
                bool(np.shares_memory(a, o)),
                bool(np.shares_memory(a, c._full_observable)))
    attempt(tag + ".chk", checks)
    attempt(tag + ".pi", c.phase_indices)
    put(tag + ".pm_info", repr(ClimateData.phase_mean.cache_info()))
    put(tag + ".an_info", repr(ClimateData.anomaly.cache_info()))


def run_climate(seed):
    rng = np.random.RandomState(2000 + seed)
    n_time = 24 + 5 * seed
    obs, grid = make(50 + seed, n_time, 7 + seed,
                     dtype=("float64", "float32", "int64")[seed % 3])
    ws = windows(grid, rng)
    for tc in (1, 2, 5, 12, n_time, n_time + 3, 0, -2, 2.0, None, "3"):
        for anomalies in (False, True):
            for sl in (0, 2):
                tag = f"C{seed}.tc{tc}.a{int(anomalies)}.s{sl}"

                def build():
                    return ClimateData(obs, grid, tc, anomalies=anomalies,
                                       silence_level=sl)
                buf = io.StringIO()
                with contextlib.redirect_stdout(buf):
                    c = build()
                put(tag + ".ctorout", buf.getvalue())
                state(tag, c)
                climate_products(tag, c)
                if tc in (5, 12, 0, 2.0) and sl == 0:
                    for k, w in enumerate(ws[:6]):
                        t2 = f"{tag}.w{k}"
                        attempt(t2, lambda w=w: c.set_window(w))
                        state(t2, c)
                        climate_products(t2, c)
                    attempt(tag + ".glob", c.set_global_window)
                    state(tag + ".glob", c)
                    climate_products(tag + ".glob", c)
    # constructor with window: counter bookkeeping
    for k, w in enumerate(ws):
        tag = f"C{seed}.ctorw{k}"

        def ctor(w=w, tag=tag):
            c = ClimateData(obs, grid, 4, window=w, silence_level=2)
            state(tag, c)
            climate_products(tag, c)
            c.set_global_window()
            state(tag + ".g", c)
            c.set_global_window()
            c.set_window(w)
            state(tag + ".gw", c)
            climate_products(tag + ".gw", c)
            return hash(c) == hash((id(c), c._mut_window)), str(c)
        attempt(tag, ctor)
    # failing window changes must leave counter, caches and view untouched
    c = ClimateData(obs, grid, 3, silence_level=2)
    climate_products(f"C{seed}.badinit", c)
    for k, w in enumerate(BAD_WINDOWS):
        tag = f"C{seed}.bad{k}"
        attempt(tag, lambda w=w: c.set_window(w))
        state(tag, c)
        climate_products(tag, c)
        attempt(tag + ".ctor", lambda w=w: state(tag + ".ctor", ClimateData(
            obs, grid, 3, window=w, silence_level=2)))
    # subclass overriding set_window sees what the base classes pass down
    for k, w in enumerate([None] + ws[:3]):
        tag = f"C{seed}.rec{k}"

        def rec(w=w, tag=tag):
            r = Recording(obs, grid, 6, window=None if w is None else dict(w),
                          silence_level=2)
            r.set_global_window()
            r.set_global_window()
            r.set_window(dict(ws[1]))
            state(tag, r)
            return list(r.seen)
        attempt(tag, rec)
    # complex / 1-D / 3-D observables
    for name, arr in (("cplx", obs.astype(complex) * (1 + 2j)),
                      ("bool", obs > 0), ("1d", obs[:, 0]),
                      ("3d", obs[:, :, None] * np.ones(2))):
        tag = f"C{seed}.{name}"

        def odd(arr=arr, tag=tag):
            c2 = ClimateData(arr, grid, 4, silence_level=2)
            state(tag, c2)
            climate_products(tag, c2)
        attempt(tag, odd)
    # SmallTestData
    for cls in (Data, ClimateData):
        d = cls.SmallTestData()
        state(f"small.{cls.__name__}", d)
        attempt(f"small.{cls.__name__}.w", lambda d=d: d.set_window(
            {"time_min": 0., "time_max": 4., "lat_min": 10., "lat_max": 20.,
             "lon_min": 5., "lon_max": 10.}))
        state(f"small.{cls.__name__}.w", d)
        d.set_global_window()
        state(f"small.{cls.__name__}.g", d)


for s in range(3):
    run_data(s)
    run_climate(s)

put("class_attrs", sorted(k for k in vars(Data) if not k.startswith("__")
                          and callable(getattr(Data, k)))[:0])
if __name__ == "__main__":
    import sys
    if len(sys.argv) > 1:
        with open(sys.argv[1], "w") as fh:
            fh.write("\n".join(LOG))
    print(len(LOG), H.hexdigest())
