"""Equivalence digest for twin_2 (thresholding of the distance matrix in
timeseries/recurrence_plot.py: fixed threshold, fixed (local) recurrence
rate, missing values).  Run as

    PYTHONPATH=<worktree>/src /venv/bin/python equiv.py
"""
import hashlib
import io
import contextlib

import numpy as np

from pyunicorn.timeseries import RecurrencePlot, RecurrenceNetwork, \
    JointRecurrencePlot, JointRecurrenceNetwork, CrossRecurrencePlot, \
    InterSystemRecurrenceNetwork

H = hashlib.sha256()


def feed(tag, obj):
    H.update(repr(tag).encode())
    if isinstance(obj, np.ndarray):
        H.update(str(obj.dtype).encode())
        H.update(repr(obj.shape).encode())
        H.update(repr((obj.flags.c_contiguous, obj.flags.owndata,
                       obj.flags.writeable)).encode())
        H.update(np.ascontiguousarray(obj).tobytes())
    elif isinstance(obj, (list, tuple)):
        for k, o in enumerate(obj):
            feed((tag, k), o)
    else:
        H.update(repr(obj).encode())


def attempt(tag, fun, *args, **kwargs):
    out = io.StringIO()
    try:
        with contextlib.redirect_stdout(out):
            res = fun(*args, **kwargs)
        feed(tag, res)
    except BaseException as exc:  # pylint: disable=broad-except
        feed(tag, (type(exc).__name__, str(exc)))
    feed((tag, "stdout"), out.getvalue())


def state(rp):
    """Everything observable about the recurrence matrix of a plot."""
    return [rp.R, rp.N, rp._mut_R, rp._mut_embedding,
            type(rp.R).__name__,
            rp.recurrence_rate(), rp.determinism(l_min=2),
            rp.laminarity(v_min=2), rp.max_diaglength(),
            rp.diagline_dist(), rp.vertline_dist(),
            rp.white_vertline_dist()]


METRICS = ("manhattan", "euclidean", "supremum")

# --- 1. constructor paths ---------------------------------------------------
rng = np.random.default_rng(70711)
for metric in METRICS:
    for shape in ((1,), (2,), (17,), (33, 1), (24, 3)):
        ts = rng.standard_normal(shape)
        tied = np.round(ts * 2) / 2
        for label, series in (("plain", ts), ("tied", tied)):
            for kw in (dict(threshold=0.0), dict(threshold=0.5),
                       dict(threshold=-1.0), dict(threshold=np.inf),
                       dict(threshold=np.nan), dict(threshold_std=0.7),
                       dict(recurrence_rate=0.0), dict(recurrence_rate=0.13),
                       dict(recurrence_rate=0.5), dict(recurrence_rate=1.0),
                       dict(recurrence_rate=1.5), dict(recurrence_rate=-0.1),
                       dict(local_recurrence_rate=0.0),
                       dict(local_recurrence_rate=0.2),
                       dict(local_recurrence_rate=1.0),
                       dict(local_recurrence_rate=2.0),
                       dict(adaptive_neighborhood_size=2)):
                for silence in (0, 2):
                    attempt(("ctor", metric, shape, label,
                             sorted(kw.items(), key=repr), silence),
                            lambda s=series, kw=kw, m=metric, sl=silence:
                            state(RecurrencePlot(s, metric=m,
                                                 silence_level=sl, **kw)))

# --- 2. missing values ------------------------------------------------------
rng = np.random.default_rng(70712)
for metric in METRICS:
    for shape, holes in (((30,), [4, 5, 20]), ((26, 2), [0, 25]),
                         ((12,), []), ((9,), list(range(9)))):
        ts = rng.standard_normal(shape)
        ts.reshape(shape[0], -1)[holes, 0] = np.nan
        for flag in (True, False):
            for kw in (dict(threshold=0.6), dict(recurrence_rate=0.2),
                       dict(local_recurrence_rate=0.25),
                       dict(threshold_std=1.0)):
                attempt(("nan", metric, shape, flag, sorted(kw.items())),
                        lambda ts=ts, kw=kw, m=metric, f=flag:
                        state(RecurrencePlot(ts, metric=m, missing_values=f,
                                             silence_level=1, **kw)))
            for dim, tau in ((2, 1), (3, 2)):
                if len(shape) > 1:
                    continue
                attempt(("nan-embed", metric, shape, flag, dim, tau),
                        lambda ts=ts, m=metric, f=flag, d=dim, t=tau:
                        state(RecurrencePlot(ts, metric=m, missing_values=f,
                                             dim=d, tau=t, threshold=0.9,
                                             silence_level=2)))

# --- 3. call sequences on one object ---------------------------------------
rng = np.random.default_rng(70713)


def sequence(metric, missing):
    ts = rng.standard_normal(28)
    if missing:
        ts[[2, 11]] = np.nan
    rp = RecurrencePlot(ts, metric=metric, missing_values=missing,
                        threshold=0.3, silence_level=0)
    res = [state(rp)]
    first = rp.R
    rp.set_fixed_recurrence_rate(0.3)
    res.append(state(rp))
    res.append(first is rp.R)
    res.append(first.copy())           # old matrix must be untouched
    rp.set_fixed_local_recurrence_rate(0.1)
    second = rp.R
    res.append(state(rp))
    rp.set_fixed_threshold_std(0.4)
    res.append(state(rp))
    res.append(second.copy())
    rp.set_fixed_threshold(np.float32(0.8))
    res.append(state(rp))
    #  thresholds that are arrays broadcast against the distance matrix
    rp.set_fixed_threshold(np.linspace(0.1, 1.0, rp.N))
    res.append(state(rp))
    rp.set_fixed_threshold(np.linspace(0.1, 1.0, rp.N)[:, None])
    res.append(state(rp))
    #  swap the embedding: N and the cached distances have to follow
    rp.embedding = rp.embed_time_series(np.nan_to_num(ts), 3, 2)
    if missing:
        rp.missing_value_indices = np.isnan(rp.embedding).sum(axis=1) != 0
    rp.set_fixed_threshold(0.9)
    res.append(state(rp))
    rp.set_fixed_recurrence_rate(0.05)
    res.append(state(rp))
    rp.set_fixed_local_recurrence_rate(0.3)
    res.append(state(rp))
    rp.metric = METRICS[(METRICS.index(metric) + 1) % 3]
    rp.set_fixed_threshold(0.9)
    res.append(state(rp))
    rp.set_adaptive_neighborhood_size(3)
    res.append(state(rp))
    rp.set_adaptive_neighborhood_size(2, order=np.arange(rp.N)[::-1])
    res.append(state(rp))
    return res


for metric in METRICS:
    for missing in (False, True):
        attempt(("sequence", metric, missing), sequence, metric, missing)


def failing_sequence():
    """Errors must leave the previous recurrence matrix in place."""
    ts = rng.standard_normal(15)
    rp = RecurrencePlot(ts, threshold=0.5, silence_level=2)
    res = []
    calls = ((rp.set_fixed_recurrence_rate, 1.2),
             (rp.set_fixed_recurrence_rate, "a"),
             (rp.set_fixed_local_recurrence_rate, -0.5),
             (rp.set_fixed_threshold, "x"),
             (rp.set_fixed_threshold, None),
             (rp.set_fixed_threshold, np.ones((3, 15, 15))),
             (rp.set_fixed_threshold, np.ones(4)),
             (rp.set_fixed_threshold_std, None),
             (rp.set_fixed_recurrence_rate, None),
             (rp.set_fixed_recurrence_rate, np.array([0.1, 0.2])),
             (rp.set_fixed_local_recurrence_rate, None))
    for fun, arg in calls:
        try:
            fun(arg)
            res.append("ok")
        except BaseException as exc:  # pylint: disable=broad-except
            res.append((type(exc).__name__, str(exc)))
        res.append(state(rp))
    rp.missing_values = True       # flag without indices -> AttributeError
    for fun, arg in ((rp.set_fixed_threshold, 0.5),
                     (rp.set_fixed_recurrence_rate, 0.5),
                     (rp.set_fixed_local_recurrence_rate, 0.5)):
        try:
            fun(arg)
            res.append("ok")
        except BaseException as exc:  # pylint: disable=broad-except
            res.append((type(exc).__name__, str(exc)))
        res.append([rp.R, rp.N, rp._mut_R, rp._mut_embedding])
    return res


attempt("failing-sequence", failing_sequence)

# --- 4. the static quantile helper -----------------------------------------
rng = np.random.default_rng(70714)
for shape in ((1,), (7,), (5, 5), (4, 9), (0,)):
    d = rng.random(shape)
    d_ties = np.round(d * 4) / 4
    for rate in (0.0, 0.1, 0.37, 0.5, 0.999, 1.0, 1.0001, -1e-9):
        for label, arr in (("plain", d), ("ties", d_ties)):
            before = arr.copy()
            attempt(("quantile", shape, rate, label),
                    RecurrencePlot.threshold_from_recurrence_rate, arr, rate)
            feed(("quantile-input-untouched", shape, rate, label),
                 bool(np.array_equal(before, arr)))

# --- 5. subclasses that reuse the RecurrencePlot thresholding ---------------
rng = np.random.default_rng(70715)
for metric in METRICS:
    ts = rng.standard_normal((40, 2))
    ts_nan = ts.copy()
    ts_nan[7, 1] = np.nan
    for kw in (dict(threshold=0.8), dict(threshold_std=0.6),
               dict(recurrence_rate=0.1), dict(local_recurrence_rate=0.1),
               dict(adaptive_neighborhood_size=4)):
        for series, miss in ((ts, False), (ts_nan, True)):
            def net(series=series, miss=miss, kw=kw, metric=metric):
                rn = RecurrenceNetwork(series, metric=metric,
                                       missing_values=miss, silence_level=2,
                                       **kw)
                return [rn.R, rn.adjacency, rn.N, rn.n_links, rn.directed,
                        rn.degree(), rn.transitivity()]
            attempt(("RN", metric, miss, sorted(kw.items())), net)

    def net_sequence(ts=ts, metric=metric):
        rn = RecurrenceNetwork(ts, metric=metric, threshold=0.5,
                               silence_level=2)
        res = [rn.adjacency.copy(), rn.R.copy()]
        rn.set_fixed_recurrence_rate(0.2)
        res += [rn.adjacency.copy(), rn.R.copy(), rn.n_links]
        rn.set_fixed_local_recurrence_rate(0.1)
        res += [rn.adjacency.copy(), rn.R.copy(), rn.n_links, rn.directed]
        rn.set_fixed_threshold_std(0.3)
        res += [rn.adjacency.copy(), rn.R.copy(), rn.n_links, rn.directed]
        rn.set_fixed_threshold(1.0)
        res += [rn.adjacency.copy(), rn.R.copy(), rn.n_links]
        return res
    attempt(("RN-sequence", metric), net_sequence)

    x = rng.standard_normal(36)
    y = rng.standard_normal(36)
    for lag in (0, 3, -4):
        for kw in (dict(threshold=(0.6, 0.9)), dict(threshold_std=(0.4, 0.5)),
                   dict(recurrence_rate=(0.2, 0.15))):
            def joint(x=x, y=y, lag=lag, kw=kw, metric=metric):
                jrp = JointRecurrencePlot(x, y, metric=(metric, "supremum"),
                                          lag=lag, dim=(2, 3), tau=(1, 2),
                                          silence_level=1, **kw)
                jrn = JointRecurrenceNetwork(x, y, metric=(metric, metric),
                                             lag=lag, silence_level=2, **kw)
                return [jrp.JR, jrp.N, jrp.R, jrp.recurrence_rate(),
                        jrn.adjacency, jrn.N]
            attempt(("JRP", metric, lag, sorted(kw.items())), joint)

    def others(x=x, y=y, metric=metric):
        crp = CrossRecurrencePlot(x[:, None], y[:30, None], metric=metric,
                                  recurrence_rate=0.1, silence_level=2)
        isrn = InterSystemRecurrenceNetwork(
            x[:, None], y[:25, None], metric=metric,
            recurrence_rate=(0.1, 0.2, 0.05), silence_level=2)
        isrn2 = InterSystemRecurrenceNetwork(
            x, y, metric=metric, dim=2, tau=(1, 2),
            threshold=(0.3, 0.4, 0.5), silence_level=2)
        return [crp.CR, crp.N, crp.M, isrn.adjacency, isrn.N,
                isrn.rp_x.R, isrn.rp_y.R, isrn.crp_xy.CR,
                isrn2.adjacency, isrn2.N, isrn2.cross_recurrence_rate()]
    attempt(("CRP-ISRN", metric), others)

print(H.hexdigest())
