"""Digest of the geographical rewiring kernels (models I, II, III)."""
import contextlib
import hashlib
import io

import numpy as np

from pyunicorn.core._ext.types import ADJ, NODE, DEGREE, FIELD
from pyunicorn.core._ext.numerics import _randomly_rewire_geomodel_I, \
    _randomly_rewire_geomodel_II, _randomly_rewire_geomodel_III
from pyunicorn.core.spatial_network import SpatialNetwork
from pyunicorn.core.grid import Grid

h = hashlib.sha256()


def feed(*parts):
    for p in parts:
        if isinstance(p, np.ndarray):
            h.update(str(p.dtype).encode())
            h.update(str(p.shape).encode())
            h.update(np.ascontiguousarray(p).tobytes())
        else:
            h.update(repr(p).encode())
        h.update(b"|")


def ring_lattice(N, k):
    A = np.zeros((N, N), dtype=ADJ)
    for i in range(N):
        for d in range(1, k + 1):
            A[i, (i + d) % N] = A[(i + d) % N, i] = 1
    return A


def random_graph(N, p, rng):
    A = np.triu((rng.random_sample((N, N)) < p), 1).astype(ADJ)
    return A + A.T


def ring_distance(N):
    i = np.arange(N)
    d = np.abs(i[:, None] - i[None, :])
    return np.minimum(d, N - d).astype(FIELD)


def plane_distance(N, rng, integer=False):
    xy = rng.random_sample((N, 2)) * 10
    if integer:
        xy = np.round(xy)
    diff = xy[:, None, :] - xy[None, :, :]
    return np.sqrt((diff ** 2).sum(axis=2)).astype(FIELD)


def edge_array(A):
    i, j = np.nonzero(np.triu(A))
    return np.ascontiguousarray(np.array([i, j]).T.astype(NODE))


def n_eligible(model, eps, A, D, edges):
    """Number of ordered edge pairs the kernel would accept right now."""
    deg = A.sum(axis=0)
    eps = np.float32(eps)

    def near(x, y):
        return abs(x - y) < eps

    count = 0
    for (s, t) in edges:
        for (k, l) in edges:
            if len({s, t, k, l}) < 4 or A[s, l] or A[t, k]:
                continue
            if model == 3 and not (deg[s] == deg[k] and deg[t] == deg[l]):
                continue
            if model == 1:
                ok = ((near(D[s, t], D[k, t]) and near(D[k, l], D[s, l])) or
                      (near(D[s, t], D[s, l]) and near(D[k, l], D[k, t])))
            else:
                ok = (near(D[s, t], D[s, l]) and near(D[t, s], D[t, k]) and
                      near(D[k, l], D[k, t]) and near(D[l, k], D[l, s]))
            count += bool(ok)
    return count


def kernel(model, iterations, eps, A, D, seed, E=None, degree=None,
           edges=None, check=True):
    A = A.copy()
    edges = edge_array(A) if edges is None else edges.copy()
    E = len(edges) if E is None else E
    if check and iterations > 0:
        # the kernel loops until it has found `iterations` admissible swaps:
        # only start it when the initial state offers plenty of them
        n_ok = n_eligible(model, eps, A, D, edges)
        feed("eligible", model, n_ok)
        if n_ok < 12:
            return
    args = [iterations, eps, A, D, E, edges]
    if model == 3:
        args.append(A.sum(axis=0).astype(DEGREE) if degree is None
                    else degree)
    fun = {1: _randomly_rewire_geomodel_I, 2: _randomly_rewire_geomodel_II,
           3: _randomly_rewire_geomodel_III}[model]
    np.random.seed(seed)
    try:
        res = fun(*args)
    except Exception as e:  # pylint: disable=broad-except
        feed("EXC", model, type(e).__name__)
    else:
        feed("OK", model, res)
    feed(A, edges, A.sum(axis=0), np.random.random_sample(2))


rng = np.random.RandomState(2024)

# 1. ring lattices with ring distance: few link length classes, regular degree
for N, k in ((12, 1), (16, 2), (21, 3), (30, 2)):
    A, D = ring_lattice(N, k), ring_distance(N)
    for seed in range(3):
        for eps in (0.5, 1.5, 3.5, 1e9):
            for model in (1, 2, 3):
                # tight tolerances admit few swaps: keep the number small
                its = 3 if eps < 1 else 12
                kernel(model, its, eps, A, D, 100 * N + 10 * seed + model)

# 2. random graphs in the plane, generous and moderate tolerance
for N, p in ((10, .4), (18, .3), (25, .2), (40, .1)):
    A = random_graph(N, p, rng)
    for integer in (False, True):
        D = plane_distance(N, rng, integer)
        for seed in range(3):
            for eps in (4.0, 1e3):
                kernel(1, 15, eps, A, D, 7 * N + seed)
                kernel(2, 6, max(eps, 8.0), A, D, 7 * N + seed + 50)
            kernel(3, 4, 1e3, A, D, 7 * N + seed + 90)
            # asymmetric "distance" matrix: C2 reads both orientations
            kernel(2, 6, 6.0, A, (D + 3 * rng.random_sample(D.shape))
                   .astype(FIELD), 7 * N + seed + 70)

# 3. two degree classes (model III needs equal degrees at both ends)
N = 24
A = ring_lattice(N, 1)
for i in range(0, N, 2):
    A[i, (i + 6) % N] = A[(i + 6) % N, i] = 1
D = ring_distance(N)
for seed in range(4):
    for eps in (2.5, 6.5, 1e9):
        for model in (1, 2, 3):
            kernel(model, 8, eps, A, D, 900 + 10 * seed + model)

# 4. degenerate calls and failing ones
A, D = ring_lattice(10, 2), ring_distance(10)
for model in (1, 2, 3):
    kernel(model, 0, 1.0, A, D, 5)                       # nothing to do
    kernel(model, -3, 1.0, A, D, 5)
    # D too small, A too small, no edges, E beyond the edge list
    kernel(model, 2, 1e9, A, D[:4, :4].copy(), 6, check=False)
    kernel(model, 2, 1e9, A[:5, :5].copy(), D, 6, edges=edge_array(A),
           check=False)
    kernel(model, 2, 1e9, A, D, 7, E=0, edges=np.zeros((0, 2), dtype=NODE),
           check=False)
    kernel(model, 2, 1e9, A, D, 8, E=500, check=False)
    # wrong shape of the edge list
    kernel(model, 2, 1e9, A, D, 10, edges=np.zeros((20, 1), dtype=NODE),
           check=False)
# degree sequences that do not fit the network
kernel(3, 2, 1e9, A, D, 11, degree=np.array([], dtype=DEGREE), check=False)
kernel(3, 2, 1e9, A, D, 11, degree=np.array([4, 4, 4], dtype=DEGREE),
       check=False)
for bad in (A.astype(np.int16), None):
    try:
        _randomly_rewire_geomodel_I(1, 1., bad, D, 20, edge_array(A))
    except Exception as e:  # pylint: disable=broad-except
        feed("EXC", type(e).__name__)

# 5. through the public methods
def public(net, model, iterations, eps, seed, n_min=12):
    name = "randomly_rewire_geomodel_" + "I" * model
    D = net.grid.distance()
    n_ok = n_eligible(model, eps, net.adjacency, D.astype(FIELD),
                      np.array(net.graph.get_edgelist()))
    feed("eligible", name, n_ok)
    if n_ok < n_min:
        return
    np.random.seed(seed)
    out = io.StringIO()
    with contextlib.redirect_stdout(out):
        res = getattr(net, name)(distance_matrix=D, iterations=iterations,
                                 inaccuracy=eps)
    feed(name, res, out.getvalue(), net.adjacency, net.degree(), net.n_links,
         sorted(net.graph.get_edgelist()), net.sp_A.indices, net.sp_A.indptr,
         np.random.random_sample(2))


for seed in range(4):
    for model, its in ((1, 20), (2, 3), (3, 2)):
        public(SpatialNetwork.SmallTestNetwork(), model, its, 100, seed,
               n_min=2)

grid = Grid.RegularGrid(time_seq=np.arange(2),
                        space_grid=[np.arange(5.), np.arange(6.)],
                        silence_level=2)
for seed in range(3):
    for model, its, eps in ((1, 25, 1.1), (2, 6, 2.5), (3, 5, 3.0),
                            (3, 5, 50.)):
        net = SpatialNetwork(grid=grid, adjacency=ring_lattice(30, 2),
                             silence_level=1)
        public(net, model, its, eps, 40 + seed)

print(h.hexdigest())
