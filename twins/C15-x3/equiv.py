"""Equivalence digest for property C15 (surrogates).

Run as:  PYTHONPATH=<worktree>/src /venv/bin/python equiv.py
Prints a sha256 digest over all results; must be identical on the pristine
and on the refactored tree.
"""
import hashlib
import io
import random as pyrandom
import sys
import warnings

import numpy as np

from pyunicorn.timeseries.surrogates import Surrogates
from pyunicorn.timeseries.recurrence_plot import RecurrencePlot

warnings.simplefilter("ignore")
H = hashlib.sha256()
#  everything the library prints is part of the digest as well
_captured = io.StringIO()
_stdout = sys.stdout
sys.stdout = _captured


def feed(tag, obj):
    H.update(tag.encode())
    if isinstance(obj, np.ndarray):
        H.update(str(obj.dtype).encode())
        H.update(repr(obj.shape).encode())
        H.update(repr(obj.flags.c_contiguous).encode())
        H.update(np.ascontiguousarray(obj).tobytes())
    elif isinstance(obj, tuple):
        for n, o in enumerate(obj):
            feed(f"{tag}[{n}]", o)
    else:
        H.update(repr(obj).encode())


def attempt(tag, fn):
    try:
        feed(tag, fn())
    except Exception as exc:  # pylint: disable=broad-except
        feed(tag + ":exc", type(exc).__name__)


def reseed(seed):
    np.random.seed(seed)
    pyrandom.seed(seed)


# `_twin_surrogates_r` reseeds the `random` module from OS entropy; make
# that call a no-op so that the twin walk is reproducible in this script.
_real_seed = pyrandom.seed


def datasets():
    rng = np.random.RandomState(12345)
    yield "gauss_even", rng.randn(3, 64)
    yield "gauss_odd", rng.randn(2, 51)
    yield "ties", rng.randint(0, 5, size=(3, 40)).astype(float)
    yield "small", Surrogates.SmallTestData().original_data.copy()
    const = rng.randn(2, 30)
    const[1, :] = 2.5
    yield "const_row", const
    yield "fortran", np.asfortranarray(rng.randn(4, 33))
    t = np.arange(120)
    yield "periodic", np.vstack([np.sin(t * np.pi / 6.),
                                 np.round(np.sin(t * np.pi / 10.), 1)])
    yield "single", rng.randn(1, 17)


for name, data in datasets():
    for seed in (0, 7):
        reseed(seed)
        pyrandom.seed = lambda *a, **k: None
        s = Surrogates(original_data=data.copy(), silence_level=2)
        feed(f"{name}/{seed}/fft0", s.original_data_fft())
        attempt(f"{name}/{seed}/white", s.white_noise_surrogates)
        attempt(f"{name}/{seed}/corr1", s.correlated_noise_surrogates)
        attempt(f"{name}/{seed}/corr2", s.correlated_noise_surrogates)
        feed(f"{name}/{seed}/fft1", s.original_data_fft())
        attempt(f"{name}/{seed}/aaft", s.AAFT_surrogates)
        for out in ("true_amplitudes", "true_spectrum", "both", "other"):
            for n_it in (0, 1, 4):
                attempt(f"{name}/{seed}/raaft/{out}/{n_it}",
                        lambda: s.refined_AAFT_surrogates(n_it, output=out))
        feed(f"{name}/{seed}/data_after", s.original_data)
        # twin surrogates (Surrogates flavour)
        for (dim, delay, thr, md) in ((1, 0, 0.2, 7), (2, 1, 0.5, 7),
                                      (3, 2, 0.8, 3), (2, 1, 5.0, 0),
                                      (1, 0, 0.0, 1)):
            tag = f"{name}/{seed}/twin_s/{dim}/{delay}/{thr}/{md}"
            attempt(tag + "/a", lambda: s.twin_surrogates(dim, delay, thr, md))
            attempt(tag + "/twins", lambda: s.twins(thr, md))
            attempt(tag + "/b", lambda: s.twin_surrogates(dim, delay, thr, md))
            attempt(tag + "/emb", lambda: s.embedding)
        s.normalize_original_data()
        feed(f"{name}/{seed}/fft_norm", s.original_data_fft())
        attempt(f"{name}/{seed}/corr_norm", s.correlated_noise_surrogates)
        attempt(f"{name}/{seed}/twin_norm",
                lambda: s.twin_surrogates(2, 1, 0.4, 4))
        attempt(f"{name}/{seed}/twins_norm", lambda: s.twins(0.4, 4))
        # twin surrogates (RecurrencePlot flavour)
        for kw in (dict(threshold=0.3), dict(recurrence_rate=0.2),
                   dict(threshold=0.6, dim=2, tau=1)):
            for md in (7, 2, 0):
                tag = f"{name}/{seed}/rp/{sorted(kw.items())}/{md}"
                try:
                    rp = RecurrencePlot(data[0].copy(), silence_level=2, **kw)
                except Exception as exc:  # pylint: disable=broad-except
                    feed(tag + ":ctor", type(exc).__name__)
                    continue
                attempt(tag + "/twins", lambda: rp.twins(md))
                attempt(tag + "/sur1", lambda: rp.twin_surrogates(1, md))
                attempt(tag + "/sur3", lambda: rp.twin_surrogates(3, md))
                attempt(tag + "/twins2", lambda: rp.twins(md))
        pyrandom.seed = _real_seed

# error paths
reseed(3)
s = Surrogates(original_data=np.random.RandomState(1).randn(2, 20),
               silence_level=2)
attempt("err/twins_no_embedding", lambda: s.twins(0.1))
attempt("err/twin_big_delay", lambda: s.twin_surrogates(3, 15, 0.1))
attempt("err/raaft_neg", lambda: s.refined_AAFT_surrogates(-1))
attempt("err/raaft_spec0",
        lambda: s.refined_AAFT_surrogates(0, output="true_spectrum"))

sys.stdout = _stdout
H.update(_captured.getvalue().encode())
print(H.hexdigest())
