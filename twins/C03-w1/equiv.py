"""Equivalence digest for the local cliquishness kernels (orders 4 and 5)."""
import hashlib
import io
import contextlib

import numpy as np

from pyunicorn.core.network import Network
from pyunicorn.core._ext.types import to_cy, ADJ, DEGREE, NODE
from pyunicorn.core._ext.numerics import (
    _local_cliquishness_4thorder, _local_cliquishness_5thorder)

H = hashlib.sha256()


def feed(tag, val):
    H.update(tag.encode())
    if isinstance(val, np.ndarray):
        H.update(str(val.dtype).encode())
        H.update(str(val.shape).encode())
        H.update(np.ascontiguousarray(val).tobytes())
    else:
        H.update(repr(val).encode())


def attempt(tag, fn):
    try:
        with contextlib.redirect_stdout(io.StringIO()):
            res = fn()
        feed(tag, res)
    except BaseException as exc:  # pylint: disable=broad-except
        feed(tag, "EXC:" + type(exc).__name__ + ":" + str(exc))


rng = np.random.RandomState(20240311)

# --- through the public API -------------------------------------------------
for n in (2, 3, 4, 5, 6, 9, 14, 23, 40):
    for p in (0.0, 0.15, 0.4, 0.75, 1.0):
        upper = np.triu((rng.rand(n, n) < p).astype(np.int8), 1)
        A = upper + upper.T
        net = Network(adjacency=A, silence_level=2)
        for order in (0, 1, 2, 3, 4, 5, 6, -1, 2.5):
            attempt(f"api-{n}-{p}-{order}",
                    lambda: net.local_cliquishness(order))
        dnet = Network(adjacency=np.triu(A), directed=True, silence_level=2)
        for order in (3, 4, 5):
            attempt(f"apid-{n}-{p}-{order}",
                    lambda: dnet.local_cliquishness(order))

attempt("small4", lambda: Network.SmallTestNetwork().local_cliquishness(4))
attempt("small5", lambda: Network.SmallTestNetwork().local_cliquishness(5))

# --- the kernels directly, also on inputs the API never produces -------------
for kern in (_local_cliquishness_4thorder, _local_cliquishness_5thorder):
    name = kern.__name__
    for n in (0, 1, 4, 7, 12, 20):
        for p in (0.2, 0.5, 0.9):
            # symmetric, with true degrees
            upper = np.triu((rng.rand(n, n) < p).astype(np.int8), 1)
            A = to_cy(upper + upper.T, ADJ)
            deg = to_cy(A.sum(axis=1), DEGREE)
            attempt(f"{name}-sym-{n}-{p}", lambda: kern(n, A, deg))
            # non symmetric, self loops, out-degree as degree
            B = to_cy((rng.rand(n, n) < p), ADJ)
            degB = to_cy(B.sum(axis=1), DEGREE)
            attempt(f"{name}-asym-{n}-{p}", lambda: kern(n, B, degB))
            # entries other than 0/1
            C = to_cy(rng.randint(0, 3, size=(n, n)), ADJ)
            degC = to_cy((C == 1).sum(axis=1), DEGREE)
            attempt(f"{name}-multi-{n}-{p}", lambda: kern(n, C, degC))
            # degree smaller than the true one (only a prefix of neighbours)
            degS = to_cy(np.maximum(degB - 1, 0), DEGREE)
            attempt(f"{name}-under-{n}-{p}", lambda: kern(n, B, degS))
            # degree larger than the true one (stale neighbour entries)
            degL = to_cy(np.minimum(degB + 2, n), DEGREE)
            attempt(f"{name}-over-{n}-{p}", lambda: kern(n, B, degL))
            # N smaller than the arrays
            if n > 3:
                attempt(f"{name}-smallN-{n}-{p}", lambda: kern(n - 2, A, deg))
            # N larger than the arrays -> IndexError from bounds checking
            attempt(f"{name}-bigN-{n}-{p}", lambda: kern(n + 2, A, deg))
            attempt(f"{name}-shortdeg-{n}-{p}",
                    lambda: kern(n, A, deg[:max(n - 1, 0)].copy()))
            attempt(f"{name}-rectA-{n}-{p}",
                    lambda: kern(n, np.ascontiguousarray(A[:, :max(n - 1, 0)]),
                                 deg))
    # degree far beyond N and negative degree
    A = to_cy(np.ones((5, 5), dtype=int) - np.eye(5, dtype=int), ADJ)
    attempt(f"{name}-hugedeg",
            lambda: kern(5, A, to_cy(np.full(5, 9), DEGREE)))
    attempt(f"{name}-negdeg",
            lambda: kern(5, A, to_cy(np.full(5, -4), DEGREE)))
    # wrong dtypes / wrong ranks / None
    attempt(f"{name}-dtypeA",
            lambda: kern(5, A.astype(np.int32), to_cy(np.full(5, 4), DEGREE)))
    attempt(f"{name}-dtypeD",
            lambda: kern(5, A, np.full(5, 4, dtype=np.int64)))
    attempt(f"{name}-rank", lambda: kern(5, A[0].copy(),
                                         to_cy(np.full(5, 4), DEGREE)))
    attempt(f"{name}-none", lambda: kern(5, None, None))
    attempt(f"{name}-noneA-hi",
            lambda: kern(5, None, to_cy(np.full(5, 4), DEGREE)))
    attempt(f"{name}-noneA-lo",
            lambda: kern(5, None, to_cy(np.full(5, 1), DEGREE)))
    attempt(f"{name}-noneA-0", lambda: kern(0, None, None))
    # read-only and non-contiguous inputs
    R = A.copy()
    R.flags.writeable = False
    dR = to_cy(np.full(5, 4), DEGREE)
    dR.flags.writeable = False
    attempt(f"{name}-readonly", lambda: kern(5, R, dR))
    big = to_cy((rng.rand(16, 16) < 0.6), ADJ)
    big = np.maximum(big, big.T)
    np.fill_diagonal(big, 0)
    view = big[::2, ::2]
    attempt(f"{name}-strided",
            lambda: kern(8, view, to_cy(view.sum(axis=1), DEGREE)))
    attempt(f"{name}-fortran",
            lambda: kern(16, np.asfortranarray(big),
                         to_cy(big.sum(axis=1), DEGREE)))
    attempt(f"{name}-negN", lambda: kern(-3, A, to_cy(np.full(5, 4), DEGREE)))

print(H.hexdigest())
