"""Digest of the binned mutual information matrix of the climate package over
a spread of inputs.  Run as
PYTHONPATH=<worktree>/src /venv/bin/python equiv.py"""
import hashlib
import os
import tempfile

import numpy as np

from pyunicorn.core._ext.types import FIELD
from pyunicorn.climate._ext.numerics import mutual_information
from pyunicorn.climate import ClimateData, MutualInfoClimateNetwork
from pyunicorn.core import GeoGrid

H = hashlib.sha256()


def feed(tag, fn):
    H.update(tag.encode())
    try:
        res = fn()
    except Exception as exc:  # pylint: disable=broad-except
        H.update(("EXC:" + type(exc).__name__).encode())
        return
    res = np.asarray(res)
    H.update(str(res.dtype).encode())
    H.update(repr(res.shape).encode())
    H.update(np.ascontiguousarray(res).tobytes())


def kernel(anomaly, n_bins):
    """anomaly: (N, n_samples) float32, as handed over by the library."""
    anomaly = np.ascontiguousarray(anomaly, dtype=FIELD)
    N, n_samples = anomaly.shape
    range_min = float(anomaly.min())
    range_max = float(anomaly.max())
    scaling = 1. / (range_max - range_min)
    return mutual_information(anomaly, n_samples, N, n_bins, scaling,
                              range_min)


rng = np.random.RandomState(991)
shapes = [(1, 1), (1, 9), (2, 2), (2, 40), (3, 7), (5, 100), (8, 33),
          (13, 257), (30, 64), (4, 2000)]
for idx, (N, T) in enumerate(shapes):
    a = rng.randn(N, T)
    if idx % 2:
        # coupled series, ties
        a[1:] = 0.7 * a[:-1] + 0.3 * a[1:]
        a = np.round(a, 1)
    for nb in (1, 2, 3, 8, 32, 33):
        feed(f"K{idx}-{nb}", lambda: kernel(a, nb))
    # symmetry is part of the result
    feed(f"S{idx}", lambda: (lambda m: m - m.T)(kernel(a, 6)))

# special values / errors
b = rng.randn(4, 25)
feed("const", lambda: kernel(np.ones((3, 8)), 4))
feed("halfconst", lambda: kernel(np.vstack([np.ones(25), b]), 4))
bn = b.copy()
bn[2, 2] = np.nan
feed("nan", lambda: kernel(bn, 4))
feed("bins0", lambda: kernel(b, 0))
feed("bins-3", lambda: kernel(b, -3))
feed("none", lambda: mutual_information(None, 1, 1, 2, 1., 0.))
feed("empty", lambda: mutual_information(
    np.zeros((0, 5), dtype=FIELD), 5, 0, 3, 1., 0.))
feed("notime", lambda: mutual_information(
    np.zeros((3, 0), dtype=FIELD), 0, 3, 3, 1., 0.))
# caller supplied range that is wider than the data
feed("wide", lambda: mutual_information(
    np.ascontiguousarray(b, dtype=FIELD), 25, 4, 5, 0.1, -5.))

# through the climate network class
os.chdir(tempfile.mkdtemp())
for seed, (n_lat, n_lon, n_time, cycle) in enumerate(
        [(2, 3, 40, 4), (3, 3, 60, 12), (1, 5, 24, 12)]):
    r2 = np.random.RandomState(seed)
    lat, lon = np.meshgrid(np.linspace(-60, 60, n_lat),
                           np.linspace(0, 300, n_lon), indexing="ij")
    grid = GeoGrid(time_seq=np.arange(n_time, dtype=float),
                   lat_seq=lat.ravel(), lon_seq=lon.ravel(), silence_level=2)
    obs = r2.randn(n_time, n_lat * n_lon)
    obs[:, 1:] += 0.8 * obs[:, :-1]
    cd = ClimateData(observable=obs, grid=grid, time_cycle=cycle,
                     silence_level=2)
    for winter in (False, True) if cycle == 12 else (False,):
        def net():
            return MutualInfoClimateNetwork(
                cd, threshold=0.3, winter_only=winter, silence_level=2)
        feed(f"net{seed}{winter}-mi", lambda: net().mutual_information(
            cd.anomaly(), dump=False))
        feed(f"net{seed}{winter}-sim", lambda: net().similarity_measure())
        feed(f"net{seed}{winter}-adj", lambda: net().adjacency)
        feed(f"net{seed}{winter}-calc", lambda: net()
             .calculate_similarity_measure(cd.anomaly()))
        feed(f"net{seed}{winter}-calc16",
             lambda: net()._cython_calculate_mutual_information(
                 cd.anomaly(), n_bins=16))
    # input is not modified
    feed(f"net{seed}-anom", cd.anomaly)

print(H.hexdigest())
