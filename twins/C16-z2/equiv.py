"""Digest of event-series behaviour (ES, ECA, matrix assembly, thresholding)."""
import hashlib
import warnings

import numpy as np

from pyunicorn.eventseries import EventSeries

warnings.simplefilter("ignore")
H = hashlib.sha256()


def feed(tag, obj):
    H.update(tag.encode())
    if isinstance(obj, tuple):
        for k, o in enumerate(obj):
            feed(f"{tag}[{k}]", o)
        return
    if isinstance(obj, np.ndarray):
        H.update(str(obj.dtype).encode() + str(obj.shape).encode())
        H.update(np.ascontiguousarray(obj).tobytes())
        return
    H.update(type(obj).__name__.encode())
    if isinstance(obj, (float, np.floating)):
        H.update(float(obj).hex().encode() if np.isfinite(obj)
                 else repr(float(obj)).encode())
    else:
        H.update(repr(obj).encode())


def attempt(tag, fun, *args, **kwargs):
    try:
        with np.errstate(all="ignore"):
            res = fun(*args, **kwargs)
    except Exception as exc:  # pylint: disable=broad-except
        feed(tag, "EXC:" + type(exc).__name__ + ":" + str(exc))
    else:
        feed(tag, res)


rng = np.random.RandomState(20161)

# ---- pairwise static functions -------------------------------------------
for T in (5, 12, 40, 90):
    for dens in (0.05, 0.2, 0.5, 0.9):
        x = (rng.rand(T) < dens).astype(int)
        y = (rng.rand(T) < dens).astype(int)
        ts_f = np.cumsum(rng.rand(T)) * 3.0
        ts_i = np.cumsum(rng.randint(1, 4, T))
        for lag in (0.0, 0, 1.0, -2.5):
            for taumax in (np.inf, 0, 1, 2.5, 7.0):
                tag = f"T{T}d{dens}l{lag!r}t{taumax!r}"
                attempt("es" + tag, EventSeries.event_synchronization,
                        x, y, taumax=taumax, lag=lag)
                attempt("es_ts" + tag, EventSeries.event_synchronization,
                        x, y, ts1=ts_f, ts2=ts_f, taumax=taumax, lag=lag)
                attempt("es_ti" + tag, EventSeries.event_synchronization,
                        x, y, ts1=ts_i, ts2=None, taumax=taumax, lag=lag)
                attempt("eca" + tag, EventSeries.event_coincidence_analysis,
                        x, y, taumax, lag=lag)
                attempt("eca_ts" + tag,
                        EventSeries.event_coincidence_analysis,
                        x, y, taumax, ts1=ts_f, ts2=ts_f, lag=lag)
# boolean series and degenerate lengths
for x, y in ((np.zeros(6, int), np.ones(6, int)),
             (np.array([1, 0, 0, 1, 0, 0]), np.array([0, 1, 1, 1, 1, 0])),
             (np.ones(7, bool), np.array([1, 0, 1, 0, 1, 0, 1], bool)),
             (np.ones(9, int), np.ones(9, int))):
    attempt("deg_es", EventSeries.event_synchronization, x, y)
    attempt("deg_es2", EventSeries.event_synchronization, x, y, taumax=1)
    attempt("deg_eca", EventSeries.event_coincidence_analysis, x, y, 2)

# ---- N x N analysis -------------------------------------------------------
for T, N, dens in ((30, 1, 0.4), (30, 2, 0.3), (50, 4, 0.25), (80, 6, 0.15),
                   (25, 5, 0.6), (40, 3, 0.05)):
    em = (rng.rand(T, N) < dens).astype(int)
    em[0, 0], em[1, 0] = 0, 1
    stamps = np.cumsum(rng.rand(T) + 0.1)
    for ts in (None, stamps):
        for taumax in (np.inf, 0.0, 1.0, 3.0):
            for lag in (0.0, 1.0):
                try:
                    es = EventSeries(em, timestamps=ts, taumax=taumax,
                                     lag=lag)
                except Exception as exc:  # pylint: disable=broad-except
                    feed("ctor", "EXC:" + type(exc).__name__)
                    continue
                feed("str", str(es))
                for sym in ("directed", "symmetric", "antisym", "mean",
                            "max", "min", "bogus"):
                    attempt(f"ES{sym}", es.event_series_analysis,
                            method="ES", symmetrization=sym)
                    # second call goes through the cache
                    attempt(f"ES{sym}2", es.event_series_analysis,
                            method="ES", symmetrization=sym)
                    for win in ("symmetric", "advanced", "retarded", "x"):
                        attempt(f"ECA{sym}{win}", es.event_series_analysis,
                                method="ECA", symmetrization=sym,
                                window_type=win)
                attempt("bad", es.event_series_analysis, method="XX")
                attempt("nd_es", es._ndim_event_synchronization)
                for win in ("symmetric", "advanced", "retarded", "x"):
                    attempt("nd_eca" + win,
                            es._ndim_event_coincidence_analysis,
                            window_type=win)
                # aliasing: result of directed analysis must be fresh/cached
                a = es.event_series_analysis(method="ES")
                b = es.event_series_analysis(method="ES")
                feed("alias", bool(a is b))
                if taumax == 1.0 and N > 1:
                    np.random.seed(7)
                    attempt("sigES", es.event_analysis_significance,
                            method="ES", n_surr=6)
                    np.random.seed(8)
                    attempt("sigECA", es.event_analysis_significance,
                            method="ECA", n_surr=6, symmetrization="mean",
                            window_type="advanced")
                    attempt("sigECAa", es.event_analysis_significance,
                            method="ECA", surrogate="analytic",
                            window_type="retarded")

# ---- thresholding ---------------------------------------------------------
for T, N in ((1, 1), (9, 1), (20, 3), (35, 5)):
    data = rng.randn(T, N)
    data[rng.rand(T, N) < 0.1] = 0.0
    if T > 10:
        data[3, 0] = np.nan
    idata = rng.randint(-3, 4, (T, N))
    for d in (data, idata, idata.astype(bool), data[:, :, None]):
        attempt("mk0", EventSeries.make_event_matrix, d)
        for meth in ("quantile", "value", "foo",
                     ["quantile", "value", "value", "quantile", "value"][:N]):
            for val in (None, 0.0, 0.3, 0.5, 0.9, 1, 1.5, -50.0, "a",
                        list(np.linspace(0.1, 0.9, N))):
                for typ in (None, "above", "below", "up",
                            ["above", "below", "below", "above", "above"][:N]):
                    attempt(f"mk{meth}{val}{typ}",
                            EventSeries.make_event_matrix, d,
                            threshold_method=meth, threshold_values=val,
                            threshold_types=typ)
    attempt("ctor_thr", lambda dd: EventSeries(
        dd, threshold_method="quantile", threshold_values=0.8,
        threshold_types="above").get_event_matrix(), data)
    attempt("ctor_thrT", lambda dd: EventSeries(
        dd.T, threshold_method="value", threshold_values=0.0,
        threshold_types="below").event_series_analysis(), data)

# ---- ES with exotic (multi-dimensional) timestamps / series ----------------
TT = 8
shapes = ([None, (TT,)] + [(TT, k) for k in range(1, 5)]
          + [(TT, k, m) for k in range(1, 4) for m in range(1, 4)])
for lx in range(3, 7):
    for ly in range(3, 7):
        x = np.zeros(TT, int)
        x[:lx] = 1
        y = np.zeros(TT, int)
        y[-ly:] = 1
        for s1 in shapes:
            for s2 in shapes:
                t1 = None if s1 is None else np.cumsum(rng.rand(*s1), axis=0)
                t2 = None if s2 is None else np.cumsum(rng.rand(*s2), axis=0)
                attempt("exo", EventSeries.event_synchronization, x, y,
                        ts1=t1, ts2=t2)
                attempt("exo", EventSeries.event_synchronization, y, x,
                        ts1=t1, ts2=t2, taumax=0.7)
        x2 = (rng.rand(TT, 2) < 0.6).astype(int)
        attempt("exo2", EventSeries.event_synchronization, x2, y)
        attempt("exo2", EventSeries.event_synchronization, x, x2)

print(H.hexdigest())
