"""Equivalence digest for Newman's random walk betweenness kernel."""
import hashlib
import io
import contextlib

import numpy as np

from pyunicorn.core.network import Network
from pyunicorn.core._ext.types import ADJ, DFIELD, to_cy
from pyunicorn.core._ext.numerics import _mpi_newman_betweenness

h = hashlib.sha256()


def feed(tag, value):
    h.update(tag.encode())
    if isinstance(value, tuple):
        for v in value:
            feed(tag + "/", v)
    elif isinstance(value, np.ndarray):
        h.update(str(value.dtype).encode())
        h.update(str(value.shape).encode())
        h.update(np.ascontiguousarray(value).tobytes())
    else:
        h.update(repr(value).encode())


def attempt(tag, func, *args):
    try:
        with contextlib.redirect_stdout(io.StringIO()):
            res = func(*args)
        feed(tag, res)
    except Exception as exc:  # pylint: disable=broad-except
        feed(tag, "EXC:" + type(exc).__name__ + ":" + str(exc))


def sym(rng, N, p):
    A = (rng.random((N, N)) < p).astype(int)
    A = np.triu(A, 1)
    return A + A.T


rng = np.random.default_rng(987654321)

# 1. public API on connected and disconnected graphs
for N in (2, 3, 4, 6, 9, 14, 22, 30):
    for p in (0.0, 0.1, 0.3, 0.6, 1.0):
        A = sym(rng, N, p)
        net = Network(adjacency=A, directed=False, silence_level=2)
        attempt(f"nb{N},{p}", net.newman_betweenness)
    # ring + chords: connected for sure
    A = np.zeros((N, N), dtype=int)
    for i in range(N):
        A[i, (i + 1) % N] = A[(i + 1) % N, i] = 1
    A = np.maximum(A, sym(rng, N, 0.2))
    np.fill_diagonal(A, 0)
    net = Network(adjacency=A, directed=False, silence_level=2)
    attempt(f"ring{N}", net.newman_betweenness)
    net.node_weights = rng.random(N) + 0.5
    attempt(f"nsiring{N}", net.nsi_newman_betweenness)
    attempt(f"nsiringT{N}", net.nsi_newman_betweenness, True)

# 2. kernel called directly on arbitrary (also non-physical) inputs
for N in (0, 1, 2, 5, 8, 13):
    for p in (0.3, 0.8):
        A = (rng.random((N, N)) < p).astype(int)
        V = rng.standard_normal((N, N))
        Vs = V.copy()
        if N > 2:
            Vs[rng.integers(N), rng.integers(N)] = np.inf
            Vs[rng.integers(N), rng.integers(N)] = np.nan
            Vs[rng.integers(N), rng.integers(N)] = -0.0
        for tag, W in (("V", V), ("Vs", Vs), ("Vbig", 1e300 * V)):
            cV = to_cy(W, DFIELD)
            attempt(f"k{tag}full{N}{p}", _mpi_newman_betweenness,
                    to_cy(A, ADJ), cV, N, 0, N)
            for a in range(N + 1):
                for b in (a, a + 1, a + 3, N):
                    if a <= b <= N:
                        attempt(f"k{tag}{N}{p}{a}{b}",
                                _mpi_newman_betweenness,
                                to_cy(A[a:b, :], ADJ), cV, N, a, b)
            # row ranges that leave V: bounds checks must fire identically
            attempt(f"k{tag}neg{N}{p}", _mpi_newman_betweenness,
                    to_cy(A, ADJ), cV, N, -2, N - 2)
            attempt(f"k{tag}neg1{N}{p}", _mpi_newman_betweenness,
                    to_cy(A, ADJ), cV, N, -1, N - 1)
            attempt(f"k{tag}past{N}{p}", _mpi_newman_betweenness,
                    to_cy(A, ADJ), cV, N, 2, N + 2)
            attempt(f"k{tag}rev{N}{p}", _mpi_newman_betweenness,
                    to_cy(A, ADJ), cV, N, N, 0)
            attempt(f"k{tag}short{N}{p}", _mpi_newman_betweenness,
                    to_cy(A[:1, :], ADJ), cV, N, 0, N)
            attempt(f"k{tag}bigN{N}{p}", _mpi_newman_betweenness,
                    to_cy(A, ADJ), cV, N + 1, 0, N)
            attempt(f"k{tag}smallN{N}{p}", _mpi_newman_betweenness,
                    to_cy(A, ADJ), cV, max(N - 1, 0), 0, max(N - 1, 0))
            attempt(f"k{tag}smallV{N}{p}", _mpi_newman_betweenness,
                    to_cy(A, ADJ), to_cy(W[:-1, :-1], DFIELD), N, 0, N)
        attempt(f"knone{N}{p}", _mpi_newman_betweenness,
                to_cy(A, ADJ), None, N, 0, N)
        attempt(f"kf32{N}{p}", _mpi_newman_betweenness,
                to_cy(A, ADJ), V.astype(np.float32), N, 0, N)

print(h.hexdigest())
