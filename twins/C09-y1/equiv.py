"""
Equivalence digest for the ClimateNetwork thresholding mechanism (C09).

Run as:  PYTHONPATH=<worktree>/src /venv/bin/python equiv.py
Prints one sha256 digest over adjacency matrices, thresholds, densities,
link counts, cache/mutation counters, printed messages and exception types
for a spread of inputs and call sequences (fixed seeds).
"""
import contextlib
import hashlib
import io

import numpy as np

from pyunicorn.core.geo_grid import GeoGrid
from pyunicorn.climate.climate_network import ClimateNetwork
from pyunicorn.climate.tsonis import TsonisClimateNetwork
from pyunicorn.climate.climate_data import ClimateData

H = hashlib.sha256()
OUT = io.StringIO()


def put(tag, obj):
    H.update(tag.encode())
    if isinstance(obj, np.ndarray):
        H.update(str(obj.dtype).encode())
        H.update(repr(obj.shape).encode())
        H.update(np.ascontiguousarray(obj).tobytes())
    else:
        H.update(repr(obj).encode())
        H.update(type(obj).__name__.encode())


def attempt(tag, fn):
    try:
        res = fn()
    except Exception as e:  # pylint: disable=broad-except
        put(tag + ":exc", (type(e).__name__, str(e)))
        return None
    put(tag + ":ok", res)
    return res


def make_grid(rng, n):
    lat = rng.uniform(-89.0, 89.0, n)
    lon = rng.uniform(-180.0, 180.0, n)
    return GeoGrid(time_seq=np.arange(5.0), lat_seq=lat, lon_seq=lon)


def make_similarity(rng, n, kind):
    m = rng.uniform(-1.0, 1.0, (n, n))
    if kind == "sym":
        m = 0.5 * (m + m.T)
    elif kind == "ties":
        m = np.round(0.5 * (m + m.T), 1)
    elif kind == "asym":
        pass
    elif kind == "fortran":
        m = np.asfortranarray(0.5 * (m + m.T))
    elif kind == "int":
        m = np.round(3 * (m + m.T)).astype("int64")
    elif kind == "nan":
        m = 0.5 * (m + m.T)
        m[0, 1] = m[1, 0] = np.nan
    np.fill_diagonal(m, 1)
    return m


def state(tag, net):
    put(tag + ":A", net.adjacency)
    put(tag + ":thr", net.threshold())
    put(tag + ":_thr", net._threshold)
    put(tag + ":ld", net.link_density)
    put(tag + ":nl", net.n_links)
    put(tag + ":nonloc", net.non_local())
    put(tag + ":_nonloc", net._non_local)
    put(tag + ":dir", net.directed)
    put(tag + ":N", net.N)
    put(tag + ":mut", (net._mut_clim, net._mut_A, net._mut_nw, net._mut_la))
    put(tag + ":cs", tuple(x if isinstance(x, (bool, int)) else
                           (type(x).__name__, x is net.grid)
                           for x in net.__cache_state__()))
    put(tag + ":sim", net.similarity_measure())
    put(tag + ":nw", net.node_weights)
    put(tag + ":deg", net.degree())
    put(tag + ":str", str(net))


def run_sequence(tag, rng, n, kind, directed, non_local, silence):
    grid = make_grid(rng, n)
    sim = make_similarity(rng, n, kind)
    put(tag + ":angdist", grid.angular_distance())
    thr0 = float(rng.uniform(0.1, 0.9))
    try:
        net = ClimateNetwork(grid=grid, similarity_measure=sim,
                             threshold=thr0, non_local=non_local,
                             directed=directed, silence_level=silence)
    except Exception as e:  # pylint: disable=broad-except
        put(tag + ":ctor_exc", (type(e).__name__, str(e)))
        return
    state(tag + ":s0", net)
    # monotone thresholds
    for k, thr in enumerate(np.linspace(0.0, 1.0, 6)):
        attempt(f"{tag}:setthr{k}", lambda t=thr: net.set_threshold(t))
        state(f"{tag}:thr{k}", net)
    # densities incl. boundary and invalid ones
    for k, ld in enumerate([0.0, 0.05, 0.3, 0.5, 0.77, 0.999, 1.0, 1.5,
                            -0.2, np.float32(0.25)]):
        attempt(f"{tag}:tfld{k}",
                lambda d=ld: net.threshold_from_link_density(d))
        attempt(f"{tag}:setld{k}", lambda d=ld: net.set_link_density(d))
        state(f"{tag}:ld{k}", net)
    # non-local toggling, incl. nothing-to-do calls
    for k, flag in enumerate([non_local, not non_local, not non_local,
                              non_local, True, 1, 0, False, True]):
        attempt(f"{tag}:setnl{k}", lambda f=flag: net.set_non_local(f))
        state(f"{tag}:nl{k}", net)
    # helper methods directly
    s = net.similarity_measure()
    for k, thr in enumerate([0.0, 0.35, np.float32(0.5), 2.0]):
        attempt(f"{tag}:cta{k}",
                lambda t=thr: net._calculate_threshold_adjacency(s, t))
        attempt(f"{tag}:cnla{k}",
                lambda t=thr: net._calculate_non_local_adjacency(s, t))
        attempt(f"{tag}:cnla_kw{k}",
                lambda t=thr: net._calculate_non_local_adjacency(
                    similarity_measure=s, threshold=t, a=30, d_min=0.2))
        attempt(f"{tag}:cnla_pos{k}",
                lambda t=thr: net._calculate_non_local_adjacency(
                    s, t, 5, 0.5))
    put(tag + ":sim_unchanged", net.similarity_measure())
    # regenerate
    attempt(tag + ":regen", net._regenerate_network)
    state(tag + ":regen", net)
    net.set_link_density(0.4)
    attempt(tag + ":regen2", net._regenerate_network)
    state(tag + ":regen2", net)
    # link density function
    attempt(tag + ":ldf", lambda: net.link_density_function(4)[0])
    # error behaviour: bad thresholds / densities
    attempt(tag + ":thr_none", lambda: net.set_threshold(None))
    attempt(tag + ":thr_str", lambda: net.set_threshold("a"))
    attempt(tag + ":ld_none", lambda: net.set_link_density(None))
    attempt(tag + ":ld_str", lambda: net.set_link_density("a"))
    attempt(tag + ":state_after_err", lambda: (net._threshold, net.n_links))
    net.set_threshold(0.5)
    # deleted similarity
    del net._similarity_measure
    attempt(tag + ":del_thr", lambda: net.set_threshold(0.3))
    attempt(tag + ":del_ld", lambda: net.set_link_density(0.3))
    attempt(tag + ":del_nl", lambda: net.set_non_local(not net.non_local()))
    attempt(tag + ":del_state", lambda: (net._threshold, net._non_local,
                                         net.n_links))
    attempt(tag + ":del_regen", net._regenerate_network)


def main():
    rng = np.random.default_rng(20240917)
    cases = [
        (6, "sym", False, False, 0), (7, "ties", False, True, 0),
        (9, "asym", True, False, 1), (12, "asym", True, True, 2),
        (5, "fortran", False, True, 0), (8, "int", False, False, 2),
        (10, "nan", False, True, 2), (2, "sym", False, True, 0),
        (1, "sym", False, False, 0), (23, "ties", True, True, 2),
    ]
    with contextlib.redirect_stdout(OUT):
        for c, (n, kind, directed, non_local, silence) in enumerate(cases):
            run_sequence(f"case{c}", rng, n, kind, directed, non_local,
                         silence)

        # construction through link density / without either
        grid = GeoGrid.SmallTestGrid()
        sim = ClimateNetwork.SmallTestNetwork().similarity_measure()
        for k, ld in enumerate([0.0, 0.2, 0.5, 0.7, 1.0]):
            for nl in (False, True):
                net = ClimateNetwork(grid=grid, similarity_measure=sim,
                                     link_density=ld, non_local=nl,
                                     silence_level=k % 3)
                state(f"ldctor{k}{nl}", net)
        attempt("neither", lambda: ClimateNetwork(
            grid=grid, similarity_measure=sim, silence_level=0))
        attempt("both", lambda: ClimateNetwork(
            grid=grid, similarity_measure=sim, threshold=0.3,
            link_density=0.9, silence_level=0).n_links)
        net = ClimateNetwork.SmallTestNetwork()
        state("small", net)
        net.set_non_local(True)
        state("small_nl", net)

        # grids with extreme / duplicate / polar coordinates
        for k, (lat, lon) in enumerate([
                ([90.0, -90.0, 0.0, 0.0, 45.0], [0.0, 0.0, 0.0, 180.0, 90.0]),
                ([10.0, 10.0, 10.0], [20.0, 20.0, 380.0]),
                ([0.0], [0.0]),
                (np.linspace(-90, 90, 17), np.linspace(-180, 180, 17))]):
            g = GeoGrid(time_seq=np.arange(3.0), lat_seq=np.array(lat),
                        lon_seq=np.array(lon))
            put(f"polar{k}", g.angular_distance())
            put(f"polar{k}b", g.distance())
            m = make_similarity(rng, g.N, "sym")
            if g.N < 2:
                attempt(f"polarnet{k}", lambda: ClimateNetwork(
                    grid=g, similarity_measure=m, threshold=0.2,
                    non_local=True, silence_level=2).n_links)
                continue
            n2 = ClimateNetwork(grid=g, similarity_measure=m,
                                threshold=0.2, non_local=True,
                                silence_level=2)
            state(f"polarnet{k}", n2)

        # a subclass using _regenerate_network
        tgrid = GeoGrid(time_seq=np.arange(48.0),
                        lat_seq=rng.uniform(-80, 80, 7),
                        lon_seq=rng.uniform(-170, 170, 7))
        data = ClimateData(observable=rng.normal(size=(48, 7)), grid=tgrid,
                           time_cycle=12, silence_level=2)
        ts = TsonisClimateNetwork(data, threshold=0.3, silence_level=2)
        state("tsonis0", ts)
        ts.set_winter_only(True)
        state("tsonis1", ts)
        ts.set_non_local(True)
        ts.set_link_density(0.5)
        state("tsonis2", ts)
        ts.set_winter_only(False)
        state("tsonis3", ts)
        ts2 = TsonisClimateNetwork(data, link_density=0.4, silence_level=2)
        state("tsonis4", ts2)
        ts2.set_winter_only(True)
        state("tsonis5", ts2)

    put("stdout", OUT.getvalue())
    print(H.hexdigest())


if __name__ == "__main__":
    main()
