"""Equivalence digest: cross_/internal_ (in/out)degree of InteractingNetworks."""
import hashlib
import io
import contextlib

import numpy as np

from pyunicorn.core.interacting_networks import InteractingNetworks

H = hashlib.sha256()


def feed(tag, val):
    H.update(tag.encode())
    if isinstance(val, np.ndarray):
        H.update(type(val).__name__.encode())
        H.update(str(val.dtype).encode())
        H.update(str(val.shape).encode())
        H.update(repr((val.flags.owndata, val.flags.c_contiguous,
                       val.flags.writeable, val.base is None)).encode())
        H.update(np.ascontiguousarray(val).tobytes())
    else:
        H.update(repr(val).encode())


def attempt(tag, fn):
    out = io.StringIO()
    try:
        with contextlib.redirect_stdout(out):
            res = fn()
        feed(tag, res)
    except BaseException as exc:  # pylint: disable=broad-except
        feed(tag, "EXC:" + type(exc).__name__ + ":" + str(exc))
    feed(tag + "/stdout", out.getvalue())


rng = np.random.RandomState(4242)

CROSS = ("cross_degree", "cross_indegree", "cross_outdegree")
INTERNAL = ("internal_degree", "internal_indegree", "internal_outdegree")
DERIVED2 = ("total_cross_degree", "cross_degree_density",
            "number_cross_links", "cross_link_density", "nsi_cross_degree",
            "nsi_cross_mean_degree", "cross_local_clustering")
DERIVED1 = ("number_internal_links", "internal_link_density",
            "nsi_internal_degree", "internal_global_clustering")
KEYS = (None, "w", "missing", 0, "")

for n in (2, 4, 7, 12, 25):
    for p in (0.0, 0.3, 0.7, 1.0):
        for directed in (False, True):
            A = (rng.rand(n, n) < p).astype(np.int8)
            np.fill_diagonal(A, 0)
            if not directed:
                A = np.maximum(A, A.T)
            net = InteractingNetworks(adjacency=A, directed=directed,
                                      node_weights=rng.rand(n) + 0.5,
                                      silence_level=2)
            W = rng.rand(n, n) * A
            if not directed:
                W = np.maximum(W, W.T)
            net.set_link_attribute("w", W)
            tag = f"{n}-{p}-{directed}"

            perm = rng.permutation(n)
            cut = n // 2
            lists = [
                (list(range(cut)), list(range(cut, n))),          # sorted
                (perm[:cut].tolist(), perm[cut:].tolist()),       # shuffled
                (perm[:cut], perm[cut:]),                         # ndarrays
                (tuple(perm[:cut].tolist()), tuple(perm[cut:].tolist())),
                ([0], list(range(n))),                            # overlap
                ([], list(range(n))),                             # empty
                (list(range(n)), []),
                ([0, 0, 1], [1, 1]),                              # repeats
                ([n], [0]),                                       # out of range
                ([0], [n + 3]),
                ([n], [0.5]),                                     # both bad
                ([0.5], [n]),
                ([-1], [0]),                                      # negative
                ("ab", [0]),
                (None, [0]),
                ([0], None),
                ([[0, 1]], [0]),
            ]
            for li, (l1, l2) in enumerate(lists):
                for key in KEYS:
                    for meth in CROSS:
                        f = getattr(net, meth)
                        attempt(f"{meth}-{tag}-{li}-{key!r}",
                                lambda: f(l1, l2, key))
                        attempt(f"{meth}-{tag}-{li}-{key!r}-kw",
                                lambda: f(node_list2=l2, node_list1=l1,
                                          link_attribute=key))
                    for meth in INTERNAL:
                        f = getattr(net, meth)
                        attempt(f"{meth}-{tag}-{li}-{key!r}-a",
                                lambda: f(l1, key))
                        attempt(f"{meth}-{tag}-{li}-{key!r}-b",
                                lambda: f(node_list=l2, link_attribute=key))
                for meth in CROSS:
                    f = getattr(net, meth)
                    attempt(f"{meth}-{tag}-{li}-default", lambda: f(l1, l2))
                for meth in INTERNAL:
                    f = getattr(net, meth)
                    attempt(f"{meth}-{tag}-{li}-default", lambda: f(l1))
            # measures built on top of them (valid node lists only)
            for li, (l1, l2) in enumerate(lists[:2]):
                for meth in DERIVED2:
                    f = getattr(net, meth)
                    attempt(f"{meth}-{tag}-{li}", lambda: f(l1, l2))
                for meth in DERIVED1:
                    f = getattr(net, meth)
                    attempt(f"{meth}-{tag}-{li}", lambda: f(l1))
            # results must not alias the network's state
            l1, l2 = lists[0]
            for meth in CROSS:
                r1 = getattr(net, meth)(l1, l2)
                r1[...] = 77
                attempt(f"alias-{meth}-{tag}",
                        lambda: getattr(net, meth)(l1, l2))
            attempt(f"adj-after-{tag}", lambda: net.adjacency)
            attempt(f"w-after-{tag}", lambda: net.link_attribute("w"))

for name in ("SmallTestNetwork", "SmallDirectedTestNetwork"):
    net = getattr(InteractingNetworks, name)()
    for key in (None, "link_weights"):
        for meth in CROSS:
            attempt(f"{name}-{meth}-{key}",
                    lambda: getattr(net, meth)([0, 3, 5], [1, 2, 4], key))
        for meth in INTERNAL:
            attempt(f"{name}-{meth}-{key}",
                    lambda: getattr(net, meth)([0, 3, 5], key))

print(H.hexdigest())
