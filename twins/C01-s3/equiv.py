"""
Cache-coherence equivalence digest (property C01).

Run as:  PYTHONPATH=<worktree>/src /venv/bin/python equiv.py

Drives mutation sequences on the analysis classes of pyunicorn, records after
every step the values of a battery of (cached) measures, the summary
attributes, the mutation counters, the `__cache_state__()` tuples, the
`cache_info()` statistics of the lru caches and the types of raised
exceptions, and prints a sha256 digest of everything.
"""
import contextlib
import hashlib
import io
import sys

import numpy as np
import scipy.sparse as sp

from pyunicorn.core.cache import Cached
from pyunicorn.core.network import Network, NetworkError
from pyunicorn.core.geo_network import GeoNetwork
from pyunicorn.core.spatial_network import SpatialNetwork
from pyunicorn.climate.climate_network import ClimateNetwork
from pyunicorn.climate.climate_data import ClimateData
from pyunicorn.climate.tsonis import TsonisClimateNetwork
from pyunicorn.climate.havlin import HavlinClimateNetwork
from pyunicorn.timeseries.recurrence_plot import RecurrencePlot
from pyunicorn.timeseries.recurrence_network import RecurrenceNetwork
from pyunicorn.timeseries.cross_recurrence_plot import CrossRecurrencePlot
from pyunicorn.timeseries.surrogates import Surrogates

H = hashlib.sha256()
LOG = []
FOCUS = set(sys.argv[1:])  # unused hook


def rec(tag, val):
    """Feed one labelled value into the digest, at full precision."""
    if isinstance(val, np.ndarray):
        s = f"nd:{val.dtype}:{val.shape}:" + hashlib.sha256(
            np.ascontiguousarray(val).tobytes()).hexdigest()
    elif sp.issparse(val):
        a = val.toarray()
        s = f"sp:{val.format}:{a.dtype}:{a.shape}:" + hashlib.sha256(
            np.ascontiguousarray(a).tobytes()).hexdigest()
    elif isinstance(val, (tuple, list)):
        for i, v in enumerate(val):
            rec(f"{tag}[{i}]", v)
        s = f"seq:{type(val).__name__}:{len(val)}"
    elif isinstance(val, (float, np.floating)):
        s = f"f:{type(val).__name__}:{float(val).hex()}"
    else:
        s = f"{type(val).__name__}:{val!r}"
    line = f"{tag}={s}"
    LOG.append(line)
    H.update(line.encode() + b"\n")


def attempt(tag, fn, *a, **k):
    """Call and record the result, or the type of the raised exception."""
    out = io.StringIO()
    try:
        with contextlib.redirect_stdout(out):
            r = fn(*a, **k)
    except Exception as e:  # pylint: disable=broad-except
        rec(tag + "!exc", type(e).__name__)
        rec(tag + "!out", out.getvalue())
        return None
    rec(tag, r)
    rec(tag + "!out", out.getvalue())
    return r


def state_of(o):
    """Hashable rendering of a cache state (owned Cached objects by class)."""
    return tuple(
        (type(x).__name__ + ":" + repr(state_of(x))) if isinstance(x, Cached)
        else x for x in o.__cache_state__())


def counters(tag, o):
    for c in ("_mut_A", "_mut_nw", "_mut_la", "_mut_clim", "_mut_R",
              "_mut_embedding", "_mut_data", "_mut_window"):
        if hasattr(o, c):
            rec(f"{tag}.{c}", getattr(o, c))
    rec(f"{tag}.state", repr(state_of(o)))
    rec(f"{tag}.hash_ok",
        hash(o) == hash((id(o),) + o.__cache_state__()))
    rec(f"{tag}.eq_self", o == o)  # pylint: disable=comparison-with-itself
    rec(f"{tag}.in_dict", o in {o: 1})


NET_MEASURES = [
    ("degree", ()), ("indegree", ()), ("outdegree", ()), ("bildegree", ()),
    ("nsi_degree", ()), ("nsi_indegree", ()), ("nsi_outdegree", ()),
    ("nsi_bildegree", ()), ("degree_distribution", ()),
    ("degree_cdf", ()), ("nsi_degree_histogram", ()),
    ("average_neighbors_degree", ()), ("nsi_average_neighbors_degree", ()),
    ("nsi_max_neighbors_degree", ()),
    ("local_clustering", ()), ("global_clustering", ()),
    ("transitivity", ()), ("nsi_local_clustering", ()),
    ("nsi_global_clustering", ()), ("nsi_transitivity", ()),
    ("path_lengths", ()), ("average_path_length", ()),
    ("nsi_average_path_length", ()), ("matching_index", ()),
    ("betweenness", ()), ("closeness", ()), ("nsi_closeness", ()),
    ("nsi_harmonic_closeness", ()), ("nsi_betweenness", ()),
    ("nsi_global_efficiency", ()), ("coreness", ()),
]
KEY_MEASURES = [
    ("degree", ("w",)), ("indegree", ("w",)), ("outdegree", ("w",)),
    ("nsi_degree", ("w",)), ("nsi_indegree", ("w",)),
    ("nsi_outdegree", ("w",)), ("path_lengths", ("w",)),
    ("average_path_length", ("w",)),
    ("local_cyclemotif_clustering", ("w",)),
    ("nsi_local_midmotif_clustering", ("w",)),
]


def summary(tag, net):
    for a in ("N", "n_links", "link_density", "mean_node_weight",
              "total_node_weight", "directed"):
        rec(f"{tag}.{a}", getattr(net, a))
    rec(f"{tag}.nw", net.node_weights)
    rec(f"{tag}.sp_A", net.sp_A)
    rec(f"{tag}.str", Network.__str__(net))
    rec(f"{tag}.es_attrs", sorted(net.graph.es.attributes()))


def battery(tag, net, with_key=False):
    summary(tag, net)
    counters(tag, net)
    ms = NET_MEASURES + (KEY_MEASURES if with_key else [])
    for rnd in range(2):  # second round served from the cache
        for m, a in ms:
            attempt(f"{tag}.{m}{a}#{rnd}", getattr(net, m), *a)


def infos(tag, cls, names):
    for n in names:
        f = getattr(cls, n)
        if hasattr(f, "cache_info"):
            rec(f"{tag}.{n}.info", tuple(f.cache_info()))


def rand_adj(rng, n, p, directed):
    A = (rng.random((n, n)) < p).astype(int)
    np.fill_diagonal(A, 0)
    if not directed:
        A = np.triu(A, 1)
        A = A + A.T
    return A


def rand_sym(rng, n):
    W = rng.random((n, n))
    return (W + W.T) / 2


# ---------------------------------------------------------------------------
def part_network():
    rng = np.random.default_rng(20240101)
    for directed in (False, True):
        for trial in range(2):
            t = f"net[{int(directed)},{trial}]"
            n = int(rng.integers(7, 12))
            A = rand_adj(rng, n, 0.4, directed)
            net = Network(adjacency=A, directed=directed, silence_level=2)
            battery(t + ".0", net)
            # node weights
            w = rng.random(n) + 0.5
            net.node_weights = w
            battery(t + ".1", net)
            fresh = Network(adjacency=A, directed=directed, node_weights=w,
                            silence_level=2)
            battery(t + ".1f", fresh)
            # link attribute
            W = rand_sym(rng, n) if not directed else rng.random((n, n))
            net.set_link_attribute("w", W)
            battery(t + ".2", net, with_key=True)
            W2 = W * 2.5 + 0.125
            net.set_link_attribute("w", W2)
            battery(t + ".3", net, with_key=True)
            fresh = Network(adjacency=A, directed=directed, node_weights=w,
                            silence_level=2)
            fresh.set_link_attribute("w", W2)
            battery(t + ".3f", fresh, with_key=True)
            rec(t + ".link_attribute", net.link_attribute("w"))
            # deletion of absent / present attribute
            net.del_link_attribute("nope")
            counters(t + ".4a", net)
            net.del_link_attribute("w")
            battery(t + ".4", net, with_key=True)
            # new adjacency of another size, list input
            n2 = n - 2
            A2 = rand_adj(rng, n2, 0.5, directed)
            net.adjacency = A2.tolist()
            counters(t + ".5a", net)
            net.node_weights = None
            battery(t + ".5", net)
            # sparse input
            A3 = rand_adj(rng, n2, 0.3, directed)
            net.adjacency = sp.lil_matrix(A3)
            net.node_weights = list(range(1, n2 + 1))
            battery(t + ".6", net)
            # edge list
            el = np.argwhere(np.triu(A2, 1) if not directed else A2)
            attempt(t + ".7.set_edge_list", net.set_edge_list, el, n2)
            battery(t + ".7", net)
            attempt(t + ".7b.set_edge_list", net.set_edge_list,
                    el.tolist())
            counters(t + ".7b", net)
            summary(t + ".7b", net)
            # failing writers
            attempt(t + ".8.nw_len", setattr, net, "node_weights",
                    [1.0, 2.0])
            counters(t + ".8", net)
            summary(t + ".8", net)
            attempt(t + ".9.adj_nonsquare", setattr, net, "adjacency",
                    np.ones((3, 4), dtype=int))
            rec(t + ".9.sp_A_none", net.sp_A is None)
            for c in ("_mut_A", "_mut_nw", "_mut_la", "N", "n_links"):
                rec(f"{t}.9.{c}", getattr(net, c))
            attempt(t + ".9.adj_3d", setattr, net, "adjacency",
                    np.ones((2, 2, 2), dtype=int))
            rec(t + ".9b.sp_A_none", net.sp_A is None)
            attempt(t + ".9.set_link_attribute_bad", net.set_link_attribute,
                    "w", None)
            for c in ("_mut_A", "_mut_nw", "_mut_la"):
                rec(f"{t}.9c.{c}", getattr(net, c))
            net.adjacency = A
            counters(t + ".10a", net)
            net.node_weights = w
            battery(t + ".10", net)
            # derived objects
            cp = net.copy()
            battery(t + ".cp", cp)
            sc = net.splitted_copy(node=1, proportion=0.25)
            battery(t + ".sc", sc)
            ig = Network.FromIGraph(net.graph.copy(), silence_level=2)
            battery(t + ".ig", ig)
            # re-running the constructor on a live object
            Network.__init__(net, adjacency=A2, directed=directed,
                             silence_level=2)
            battery(t + ".11", net)
            Network.__init__(net, edge_list=el, n_nodes=n2,
                             directed=directed, node_weights=np.arange(n2) + 1,
                             silence_level=2)
            battery(t + ".12", net)
            attempt(t + ".13.noinput", Network.__init__, net)
            for c in ("_mut_A", "_mut_nw", "_mut_la"):
                rec(f"{t}.13.{c}", getattr(net, c))
    attempt("net.noinput", Network)
    attempt("net.model", lambda: Network.SmallTestNetwork().degree())
    infos("net.info", Network, [m for m, _ in NET_MEASURES] +
          ["_nsi_betweenness", "local_cyclemotif_clustering",
           "nsi_local_midmotif_clustering"])
    # the declared dependencies themselves are not observable, the class
    # attributes of the decorated methods are
    for m, _ in NET_MEASURES:
        f = getattr(Network, m)
        rec(f"net.meta.{m}", (f.__name__, f.__doc__ is not None,
                              hasattr(f, "cache_clear"),
                              hasattr(f, "__wrapped__")))


# ---------------------------------------------------------------------------
CLIM_MEASURES = ["degree", "nsi_degree", "local_clustering",
                 "nsi_local_clustering", "average_path_length",
                 "betweenness", "closeness"]


def clim_battery(tag, net, extra=()):
    summary(tag, net)
    counters(tag, net)
    rec(tag + ".threshold", net.threshold())
    rec(tag + ".non_local", net.non_local())
    rec(tag + ".nwt", net.node_weight_type)
    rec(tag + ".sim", net.similarity_measure())
    for rnd in range(2):
        for m in list(CLIM_MEASURES) + list(extra):
            attempt(f"{tag}.{m}#{rnd}", getattr(net, m))


def part_climate():
    ex = ["correlation_distance", "correlation_distance_weighted_closeness",
          "local_correlation_distance_weighted_vulnerability",
          "link_distance_distribution_helper"]
    ex = [m for m in ex if hasattr(ClimateNetwork, m)]
    net = ClimateNetwork.SmallTestNetwork()
    clim_battery("clim.0", net, ex)
    for i, th in enumerate((0.7, 0.3, 0.5, 0.45)):
        net.set_threshold(th)
        clim_battery(f"clim.th{i}", net, ex)
    for i, ld in enumerate((0.7, 0.2, 0.5)):
        net.set_link_density(ld)
        clim_battery(f"clim.ld{i}", net, ex)
    net.set_non_local(True)
    clim_battery("clim.nl1", net, ex)
    net.set_non_local(True)
    counters("clim.nl1b", net)
    net.set_non_local(False)
    clim_battery("clim.nl0", net, ex)
    net.node_weight_type = "sqrtcos"
    clim_battery("clim.nwt", net, ex)
    net.node_weights = np.linspace(1, 2, net.N)
    net.set_link_attribute("w", rand_sym(np.random.default_rng(5), net.N))
    clim_battery("clim.nw", net, ex)
    attempt("clim.deg_w", net.degree, "w")
    net._regenerate_network()  # pylint: disable=protected-access
    clim_battery("clim.regen", net, ex)
    net.adjacency = 1 - np.eye(net.N, dtype=int)
    clim_battery("clim.adj", net, ex)
    attempt("clim.bad_th", net.set_threshold, None)
    counters("clim.bad_th", net)
    fresh = ClimateNetwork.SmallTestNetwork()
    clim_battery("clim.fresh", fresh, ex)
    attempt("clim.nothing", lambda: ClimateNetwork(
        grid=fresh.grid, similarity_measure=fresh.similarity_measure(),
        silence_level=2))

    # geo / spatial
    g = GeoNetwork.SmallTestNetwork()
    battery("geo.0", g)
    rec("geo.0.nwt", g.node_weight_type)
    g.node_weight_type = "cos"
    battery("geo.1", g)
    g.adjacency = np.roll(g.adjacency, 1, axis=0) * (1 - np.eye(6, dtype=int))
    attempt("geo.2.fix", lambda: None)
    counters("geo.2", g)
    s = SpatialNetwork.SmallTestNetwork()
    battery("spat.0", s)
    s.set_link_attribute("w", rand_sym(np.random.default_rng(6), s.N))
    battery("spat.1", s, with_key=True)

    # climate data windows
    data = ClimateData.SmallTestData()
    win = {"time_min": 0., "time_max": 0., "lat_min": 10., "lat_max": 20.,
           "lon_min": 5., "lon_max": 10.}
    win2 = {"time_min": 2., "time_max": 6., "lat_min": 0., "lat_max": 25.,
            "lon_min": 2.5, "lon_max": 12.5}

    def dbat(tag):
        counters(tag, data)
        rec(tag + ".shape", data.observable().shape)
        for rnd in range(2):
            for m in ("phase_mean", "anomaly", "phase_indices"):
                if hasattr(data, m):
                    attempt(f"{tag}.{m}#{rnd}", getattr(data, m))
        rec(tag + ".grid_lat", data.grid.grid()["lat"])

    dbat("data.0")
    attempt("data.w1", data.set_window, win)
    dbat("data.1")
    attempt("data.w2", data.set_window, win2)
    dbat("data.2")
    attempt("data.wbad", data.set_window, {"time_min": 0.})
    counters("data.bad", data)
    attempt("data.gw", data.set_global_window)
    dbat("data.3")
    fresh = ClimateData.SmallTestData()
    counters("data.fresh", fresh)
    rec("data.fresh.anomaly", fresh.anomaly())

    # coupled climate networks
    data = ClimateData.SmallTestData()
    attempt("tsonis.winter", lambda: TsonisClimateNetwork(
        data, threshold=0.5, silence_level=2) and None)
    ts = TsonisClimateNetwork(data, threshold=0.5, winter_only=False,
                              silence_level=2)
    clim_battery("tsonis.0", ts)
    attempt("tsonis.wl", ts.set_winter_only, True)
    clim_battery("tsonis.1", ts)
    data.set_window(win2)
    counters("tsonis.2", ts)
    attempt("tsonis.2.degree", ts.degree)
    data.set_global_window()
    hv = HavlinClimateNetwork(data, max_delay=2, threshold=0.5,
                              silence_level=2)
    clim_battery("havlin.0", hv)
    rec("havlin.0.md", hv.get_max_delay())
    attempt("havlin.smd", hv.set_max_delay, 3)
    clim_battery("havlin.1", hv)
    rec("havlin.1.cs", hv.correlation_strength())
    hv.set_threshold(0.8)
    clim_battery("havlin.2", hv)
    infos("clim.info", ClimateNetwork, CLIM_MEASURES + ex)


# ---------------------------------------------------------------------------
RP_MEASURES = ["recurrence_rate", "determinism", "laminarity", "diag_entropy",
               "average_diaglength", "max_diaglength", "trapping_time",
               "diagline_dist", "vertline_dist", "white_vertline_dist"]


def rp_battery(tag, rp):
    counters(tag, rp)
    rec(tag + ".N", rp.N)
    rec(tag + ".R", rp.recurrence_matrix())
    rec(tag + ".emb", rp.embedding)
    rec(tag + ".threshold", rp.threshold)
    for rnd in range(2):
        for m in RP_MEASURES:
            attempt(f"{tag}.{m}#{rnd}", getattr(rp, m))


def part_recurrence():
    rng = np.random.default_rng(77)
    x = np.cumsum(rng.standard_normal(60))
    y = np.sin(np.arange(60) * 0.35) + 0.1 * rng.standard_normal(60)
    rp = RecurrencePlot(x, threshold=1.0, silence_level=2)
    rp_battery("rp.0", rp)
    rp.set_fixed_threshold(2.0)
    rp_battery("rp.1", rp)
    rp.set_fixed_recurrence_rate(0.2)
    rp_battery("rp.2", rp)
    rp.set_fixed_threshold_std(0.3)
    rp_battery("rp.3", rp)
    rp.set_fixed_local_recurrence_rate(0.15)
    rp_battery("rp.4", rp)
    rp.embedding = RecurrencePlot.embed_time_series(x, 3, 2)
    counters("rp.5a", rp)
    rp.set_fixed_threshold(1.5)
    rp_battery("rp.5", rp)
    rp.R = np.eye(rp.N, dtype=rp.R.dtype)
    rp_battery("rp.6", rp)
    rp.metric = "euclidean"
    rp_battery("rp.7", rp)
    rp.set_fixed_threshold(1.5)
    rp_battery("rp.8", rp)
    attempt("rp.bad_emb", setattr, rp, "embedding", "abc")
    counters("rp.bad_emb", rp)
    rec("rp.bad_emb.N", rp.N)
    attempt("rp.scalar_emb", setattr, rp, "embedding", 3.0)
    counters("rp.scalar_emb", rp)
    rec("rp.scalar_emb.N", rp.N)
    rec("rp.scalar_emb.shape", rp.embedding.shape)
    attempt("rp.0d_emb", setattr, rp, "embedding", np.array(3.0))
    counters("rp.0d_emb", rp)
    rec("rp.0d_emb.N", rp.N)
    rec("rp.0d_emb.shape", rp.embedding.shape)
    attempt("rp.nothing", lambda: RecurrencePlot(x, silence_level=2))
    rp = RecurrencePlot(y, dim=2, tau=3, recurrence_rate=0.1,
                        silence_level=2)
    rp_battery("rp.9", rp)
    rp = RecurrencePlot(y, threshold=0.2, sparse_rqa=True, silence_level=2)
    counters("rp.10", rp)
    for m in ("diagline_dist", "vertline_dist", "determinism"):
        attempt(f"rp.10.{m}", getattr(rp, m))
    rp.threshold = 0.4
    for m in ("diagline_dist", "vertline_dist", "determinism"):
        attempt(f"rp.11.{m}", getattr(rp, m))
    rec("rp.doc.embedding", RecurrencePlot.embedding.__doc__)
    rec("rp.doc.R", RecurrencePlot.R.__doc__)
    rec("rp.prop", (isinstance(RecurrencePlot.embedding, property),
                    isinstance(RecurrencePlot.R, property),
                    RecurrencePlot.R.fdel is None,
                    RecurrencePlot.embedding.fdel is None))
    infos("rp.info", RecurrencePlot, RP_MEASURES)

    # recurrence networks
    rn = RecurrenceNetwork(x, threshold=1.0, silence_level=2)

    def rn_battery(tag):
        rp_battery(tag, rn)
        summary(tag, rn)
        for rnd in range(2):
            for m in ("degree", "nsi_degree", "local_clustering",
                      "transitivity", "average_path_length", "betweenness"):
                attempt(f"{tag}.{m}#{rnd}", getattr(rn, m))

    rn_battery("rn.0")
    rn.set_fixed_threshold(2.0)
    rn_battery("rn.1")
    rn.set_fixed_recurrence_rate(0.15)
    rn_battery("rn.2")
    rn.set_fixed_threshold_std(0.4)
    rn_battery("rn.3")
    rn.set_fixed_local_recurrence_rate(0.1)
    rn_battery("rn.4")
    rn.set_adaptive_neighborhood_size(3)
    rn_battery("rn.5")
    rn.node_weights = np.linspace(0.5, 1.5, rn.N)
    rn_battery("rn.6")
    rn.embedding = RecurrencePlot.embed_time_series(x, 2, 4)
    rn.set_fixed_threshold(1.2)
    rn_battery("rn.7")
    rec("rn.mro", [c.__name__ for c in RecurrenceNetwork.__mro__])
    rec("rn.cs_owner", RecurrenceNetwork.__cache_state__.__qualname__)

    # cross recurrence plots
    crp = CrossRecurrencePlot(x, y, threshold=1.0, silence_level=2)

    def crp_battery(tag):
        counters(tag, crp)
        rec(tag + ".CR", crp.recurrence_matrix())
        rec(tag + ".xe", crp.x_embedded)
        rec(tag + ".ye", crp.y_embedded)
        rec(tag + ".NM", (crp.N, crp.M))
        for rnd in range(2):
            for m in ("cross_recurrence_rate", "balance", "recurrence_rate"):
                attempt(f"{tag}.{m}#{rnd}", getattr(crp, m))

    crp_battery("crp.0")
    crp.set_fixed_threshold(0.5)
    crp_battery("crp.1")
    crp.set_fixed_recurrence_rate(0.2)
    crp_battery("crp.2")
    crp.x_embedded = RecurrencePlot.embed_time_series(x, 2, 1)
    crp.y_embedded = RecurrencePlot.embed_time_series(y, 2, 1)
    crp_battery("crp.3a")
    crp.set_fixed_threshold(0.5)
    crp_battery("crp.3")
    crp = CrossRecurrencePlot(x, y[:40], dim=2, tau=2, recurrence_rate=0.1,
                              silence_level=2)
    crp_battery("crp.4")
    attempt("crp.nothing", lambda: CrossRecurrencePlot(x, y, silence_level=2))
    rec("crp.doc", (CrossRecurrencePlot.x_embedded.__doc__,
                    CrossRecurrencePlot.y_embedded.__doc__))

    # surrogates
    np.random.seed(11)
    data = np.vstack([x, y, x[::-1] * 0.5 + y])
    su = Surrogates(data.copy(), silence_level=2)
    counters("su.0", su)
    rec("su.0.emb_none", su.embedding is None)
    attempt("su.0.fft", su.original_data_fft)
    attempt("su.0.fft2", su.original_data_fft)
    su.normalize_original_data()
    counters("su.1", su)
    attempt("su.1.fft", su.original_data_fft)
    with contextlib.redirect_stdout(io.StringIO()):
        e1 = Surrogates.embed_time_series_array(su.original_data, 2, 3)
        e2 = Surrogates.embed_time_series_array(su.original_data, 3, 1)
    su.embedding = e1
    counters("su.2", su)
    rec("su.2.emb", su.embedding)
    attempt("su.2.twins", su.twins, 0.5, 2)
    attempt("su.2.twins2", su.twins, 0.5, 2)
    su.embedding = e2
    counters("su.3", su)
    attempt("su.3.twins", su.twins, 0.5, 2)
    attempt("su.bad_emb", setattr, su, "embedding", "abc")
    counters("su.bad_emb", su)
    rec("su.doc", Surrogates.embedding.__doc__)
    infos("su.info", Surrogates, ["twins", "original_data_fft"])


# ---------------------------------------------------------------------------
def part_cached():
    class Dep(Cached):
        def __init__(self):
            self.c = 0
            self.k = 0
            self.calls = 0

        def __cache_state__(self):
            return (self.c,)

        @Cached.method()
        def plain(self, a, b=1):
            """plain"""
            self.calls += 1
            return (a, b, self.c, self.k)

        @Cached.method(name="keyed", attrs=("k",))
        def keyed(self, a=0, *rest, **kw):
            """keyed"""
            self.calls += 1
            return (a, rest, tuple(sorted(kw.items())), self.c, self.k)

        @Cached.method(attrs=("k", "missing"))
        def broken(self):
            return 1

    class Own(Cached):
        def __init__(self, d):
            self.d = d

        def __cache_state__(self):
            return (self.d,)

        @Cached.method()
        def f(self):
            return self.d.c

    a, b = Dep(), Dep()
    out = io.StringIO()
    with contextlib.redirect_stdout(out):
        for o, t in ((a, "a"), (b, "b")):
            for step in range(3):
                rec(f"c.{t}.{step}.plain", o.plain(1))
                rec(f"c.{t}.{step}.plain_kw", o.plain(1, b=1))
                rec(f"c.{t}.{step}.plain_f", o.plain(1.0))
                rec(f"c.{t}.{step}.keyed", o.keyed(2, 3, z=1, y=2))
                rec(f"c.{t}.{step}.keyed0", o.keyed())
                rec(f"c.{t}.{step}.keyed_again", o.keyed(2, 3, z=1, y=2))
                o.k += 1
                rec(f"c.{t}.{step}.keyed_k", o.keyed(2, 3, z=1, y=2))
                o.c += step
                rec(f"c.{t}.{step}.keyed_c", o.keyed(2, 3, z=1, y=2))
                rec(f"c.{t}.{step}.calls", o.calls)
                rec(f"c.{t}.{step}.eq", (o == o, o == a, o != b))
        a.silence_level = 2
        rec("c.silent", a.keyed(9))
    rec("c.out", out.getvalue())
    attempt("c.broken", a.broken)
    rec("c.info.plain", tuple(Dep.plain.cache_info()))
    rec("c.info.keyed", tuple(Dep.keyed.cache_info()))
    rec("c.meta", (Dep.keyed.__name__, Dep.keyed.__doc__,
                   Dep.plain.__name__, Dep.plain.__doc__,
                   Dep.keyed.__wrapped__.__name__,
                   hasattr(Dep.keyed, "cache_clear")))
    rec("c.hash", (hash(a) == hash((id(a), a.c)), hash(a) == hash(b)))
    o = Own(a)
    rec("c.own.0", o.f())
    a.c += 10
    rec("c.own.1", o.f())
    rec("c.own.info", tuple(Own.f.cache_info()))
    o.cache_clear()
    rec("c.own.cleared", (tuple(Own.f.cache_info()),
                          tuple(Dep.plain.cache_info()),
                          tuple(Dep.keyed.cache_info())))
    a.plain(5)
    a.keyed(5)
    a.cache_clear(prefix="pl")
    rec("c.prefix", (tuple(Dep.plain.cache_info()),
                     tuple(Dep.keyed.cache_info())))
    for bad in (dict(attrs=()), dict(attrs=["k"]), dict(attrs=(1,)),
                dict(name=3)):
        attempt(f"c.bad{sorted(bad)}", lambda bad=bad: Cached.method(**bad))
    attempt("c.abstract", Cached)

    class ListState(Cached):
        def __cache_state__(self):
            return [1]
    attempt("c.liststate.hash", hash, ListState())
    attempt("c.liststate.eq", lambda: ListState() == ListState())
    ls = ListState()
    attempt("c.liststate.eq_self", lambda: ls == ls)



def part_extra():
    """Climate classes: re-run constructors, window writers, cache states."""
    from pyunicorn.climate.mutual_info import MutualInfoClimateNetwork
    from pyunicorn.climate.hilbert import HilbertClimateNetwork
    net = ClimateNetwork.SmallTestNetwork()
    sim = net.similarity_measure().copy()
    grid = net.grid
    for i, kw in enumerate((dict(threshold=0.4), dict(link_density=0.3),
                            dict(threshold=0.6, non_local=True),
                            dict(threshold=0.2, directed=True,
                                 node_weight_type=None),
                            dict(), dict(threshold="x"))):
        attempt(f"y.reinit.{i}", lambda kw=kw: ClimateNetwork.__init__(
            net, grid=grid, similarity_measure=sim, silence_level=2, **kw))
        counters(f"y.reinit.{i}", net)
        summary(f"y.reinit.{i}", net)
        rec(f"y.reinit.{i}.cs_len", len(net.__cache_state__()))
        rec(f"y.reinit.{i}.cs_type", type(net.__cache_state__()).__name__)
        for m in ("degree", "nsi_degree", "correlation_distance"):
            attempt(f"y.reinit.{i}.{m}", getattr(net, m))
    new = ClimateNetwork(grid=grid, similarity_measure=sim, link_density=0.5,
                         silence_level=2)
    counters("y.new", new)
    summary("y.new", new)
    rec("y.new.threshold", new.threshold())
    attempt("y.noarg", lambda: ClimateNetwork(grid=grid,
                                              similarity_measure=sim))
    attempt("y.badgrid", lambda: ClimateNetwork(grid=None,
                                                similarity_measure=sim,
                                                threshold=0.5))

    # data windows
    win = {"time_min": 1., "time_max": 7., "lat_min": 5., "lat_max": 20.,
           "lon_min": 2.5, "lon_max": 10.}
    base = ClimateData.SmallTestData()
    data = ClimateData(observable=base.observable().copy(), grid=base.grid,
                       time_cycle=base.time_cycle, window=win,
                       silence_level=2)
    counters("y.data.0", data)
    rec("y.data.0.anom", data.anomaly())
    for i in range(3):
        data.set_global_window()
        counters(f"y.data.g{i}", data)
        rec(f"y.data.g{i}.anom", data.anomaly())
        data.set_window(win)
        counters(f"y.data.w{i}", data)
        rec(f"y.data.w{i}.anom", data.anomaly())
        rec(f"y.data.w{i}.pm", data.phase_mean())
    for i, bad in enumerate((None, {}, 3, {"time_min": 0., "time_max": 0.})):
        attempt(f"y.data.bad{i}", data.set_window, bad)
        counters(f"y.data.bad{i}", data)
        attempt(f"y.data.bad{i}.anom", data.anomaly)
    rec("y.data.info", tuple(ClimateData.anomaly.cache_info()))

    # networks owning their data
    data = ClimateData.SmallTestData()
    for cls, kw in ((MutualInfoClimateNetwork, dict(winter_only=False)),
                    (HilbertClimateNetwork, dict()),
                    (HavlinClimateNetwork, dict(max_delay=1)),
                    (TsonisClimateNetwork, dict(winter_only=False))):
        t = "y." + cls.__name__
        n = attempt(t + ".new", lambda cls=cls, kw=kw: cls(
            data, threshold=0.4, silence_level=2, **kw) and None)
        n = cls(data, threshold=0.4, silence_level=2, **kw)
        counters(t + ".0", n)
        summary(t + ".0", n)
        attempt(t + ".0.deg", n.degree)
        n.set_threshold(0.6)
        counters(t + ".1", n)
        attempt(t + ".1.deg", n.degree)
        n.set_link_density(0.4)
        counters(t + ".2", n)
        attempt(t + ".2.deg", n.degree)
        n._regenerate_network()  # pylint: disable=protected-access
        counters(t + ".3", n)
        summary(t + ".3", n)
        attempt(t + ".3.deg", n.degree)
        rec(t + ".cs_type", type(n.__cache_state__()).__name__)
        rec(t + ".cs_len", len(n.__cache_state__()))


PARTS = {"network": part_network, "climate": part_climate,
         "recurrence": part_recurrence, "cached": part_cached,
         "extra": part_extra}

if __name__ == "__main__":
    for name, fn in PARTS.items():
        n0 = len(LOG)
        fn()
        print(f"{name}: {len(LOG) - n0} records", file=sys.stderr)
    if "--dump" in sys.argv:
        print("\n".join(LOG))
    print(H.hexdigest())
