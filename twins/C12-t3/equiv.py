"""Equivalence digest for property C12 (grid distances / node lookup /
cos-lat weights).  Run as  PYTHONPATH=<worktree>/src /venv/bin/python equiv.py
"""
import hashlib
import os
import sys
import warnings
import io
import contextlib

import numpy as np

from pyunicorn.core.grid import Grid
from pyunicorn.core.geo_grid import GeoGrid
from pyunicorn.core.geo_network import GeoNetwork
from pyunicorn.core._ext.types import FIELD
from pyunicorn.core._ext.numerics import (
    _calculate_angular_distance, _calculate_euclidean_distance)

warnings.simplefilter("ignore")
H = hashlib.sha256()


def put(tag, obj):
    H.update(tag.encode())
    if isinstance(obj, np.ndarray):
        H.update(str(obj.dtype).encode())
        H.update(repr(obj.shape).encode())
        H.update(np.ascontiguousarray(obj).tobytes())
    else:
        H.update(type(obj).__name__.encode())
        H.update(repr(obj).encode())


def attempt(tag, fn):
    try:
        res = fn()
    except BaseException as e:  # pylint: disable=broad-except
        put(tag + ":exc", type(e).__name__ + ": " + str(e))
        if os.environ.get("EQUIV_VERBOSE"):
            print(tag, type(e).__name__, e, file=sys.stderr)
        return
    if isinstance(res, (tuple, list)):
        put(tag + ":len", len(res))
        for k, r in enumerate(res):
            put(f"{tag}[{k}]", np.asarray(r) if not np.isscalar(r) else r)
    else:
        put(tag, res)


def state(tag, g):
    put(tag + ":space", g._grid["space"])
    put(tag + ":time", g._grid["time"])
    put(tag + ":N", g.N)


rng = np.random.default_rng(20261004)

# ---------------------------------------------------------------- raw kernels
for N in (0, 1, 2, 3, 7, 31):
    for trial in range(3):
        lat = rng.uniform(-np.pi / 2, np.pi / 2, N)
        lon = rng.uniform(-np.pi, 2 * np.pi, N)
        args = [np.cos(lat), np.sin(lat), np.cos(lon), np.sin(lon)]
        if trial == 1:
            # exaggerate -> exercises both clamps
            args = [a * 1.5 for a in args]
        if trial == 2 and N > 2:
            args[0][1] = np.nan
            args[3][2] = np.inf
        args = [a.astype(FIELD) for a in args]
        out = np.full((N, N), 7, dtype=FIELD)
        _calculate_angular_distance(*args, out, N)
        put(f"kang{N}.{trial}", out)
        for a in args:
            put("kang-arg", a)
        for D in (1, 2, 3, 5):
            x = (rng.standard_normal((D, N)) * 10.0 ** rng.integers(-3, 6))
            x = x.astype(FIELD)
            if trial == 2 and N > 2:
                x[0, 1] = np.nan
                x[D - 1, 2] = np.inf
            x0 = x.copy()
            dist = np.full((N, N), 7, dtype=FIELD)
            _calculate_euclidean_distance(x, dist, D, N)
            put(f"keuc{N}.{D}.{trial}", dist)
            put("keuc-arg-unchanged", bool(np.array_equal(
                x, x0, equal_nan=True)))
# partial N (kernel only fills the leading block)
out = np.full((5, 5), 3, dtype=FIELD)
a = [np.linspace(-1, 1, 5).astype(FIELD) for _ in range(4)]
_calculate_angular_distance(*a, out, 3)
put("kang-partial", out)
out = np.full((5, 5), 3, dtype=FIELD)
_calculate_euclidean_distance(
    np.arange(10, dtype=FIELD).reshape(2, 5), out, 1, 4)
put("keuc-partial", out)
attempt("kang-badtype", lambda: _calculate_angular_distance(
    *[np.zeros(2)] * 4, np.zeros((2, 2), dtype=FIELD), 2))
attempt("kang-oob", lambda: _calculate_angular_distance(
    *[np.zeros(2, dtype=FIELD)] * 4, np.zeros((2, 2), dtype=FIELD), 3))
attempt("keuc-badtype", lambda: _calculate_euclidean_distance(
    np.zeros((2, 2)), np.zeros((2, 2), dtype=FIELD), 2, 2))
attempt("keuc-oob", lambda: _calculate_euclidean_distance(
    np.zeros((2, 2), dtype=FIELD), np.zeros((2, 2), dtype=FIELD), 3, 2))

# failure modes: which exception, and what was written before it
f3 = [np.linspace(-1, 1, 3).astype(FIELD) * k for k in (1, 2, 3, 4)]
for shp in ((3, 2), (2, 3), (2, 2), (3, 3), (1, 5), (0, 0)):
    out = np.full(shp, 9, dtype=FIELD)
    attempt(f"kang-shape{shp}", lambda: _calculate_angular_distance(
        *f3, out, 3))
    put(f"kang-shape{shp}-out", out)
    out = np.full(shp, 9, dtype=FIELD)
    attempt(f"keuc-shape{shp}", lambda: _calculate_euclidean_distance(
        np.arange(6, dtype=FIELD).reshape(2, 3) ** 2, out, 2, 3))
    put(f"keuc-shape{shp}-out", out)
for short in range(4):
    for none in range(-1, 4):
        a = [v.copy() for v in f3]
        a[short] = a[short][:2]
        if none >= 0:
            a[none] = None
        out = np.full((3, 3), 9, dtype=FIELD)
        attempt(f"kang-short{short}-none{none}",
                lambda: _calculate_angular_distance(*a, out, 3))
        put("kang-short-out", out)
for xs in ((1, 3), (2, 2), (3, 1), (0, 3), (2, 0)):
    out = np.full((3, 3), 9, dtype=FIELD)
    attempt(f"keuc-x{xs}", lambda: _calculate_euclidean_distance(
        np.ones(xs, dtype=FIELD), out, 2, 3))
    put("keuc-x-out", out)
attempt("kang-none-out", lambda: _calculate_angular_distance(*f3, None, 3))
attempt("kang-none-out0", lambda: _calculate_angular_distance(*f3, None, 0))
attempt("keuc-none-x", lambda: _calculate_euclidean_distance(
    None, np.zeros((2, 2), dtype=FIELD), 1, 2))
attempt("keuc-none-out", lambda: _calculate_euclidean_distance(
    np.zeros((2, 2), dtype=FIELD), None, 1, 2))
attempt("keuc-negN", lambda: _calculate_euclidean_distance(
    np.zeros((2, 2), dtype=FIELD), np.zeros((2, 2), dtype=FIELD), -1, -2))
attempt("keuc-dim0", lambda: _calculate_euclidean_distance(
    np.zeros((2, 2), dtype=FIELD), np.zeros((2, 2), dtype=FIELD), 0, 2))
attempt("kang-kw", lambda: _calculate_angular_distance(
    cos_lat=f3[0], sin_lat=f3[1], cos_lon=f3[2], sin_lon=f3[3],
    cosangdist=np.zeros((3, 3), dtype=FIELD), N=3))
attempt("keuc-kw", lambda: _calculate_euclidean_distance(
    x=np.zeros((2, 2), dtype=FIELD),
    distance=np.zeros((2, 2), dtype=FIELD), N_dim=2, N_nodes=2))
put("kang-doc", _calculate_angular_distance.__doc__)
put("keuc-doc", _calculate_euclidean_distance.__doc__)
# non-contiguous views
big = rng.standard_normal((4, 12)).astype(FIELD)
out = np.zeros((12, 6), dtype=FIELD)[::2]
_calculate_angular_distance(big[0, ::2], big[1, ::2], big[2, ::2],
                            big[3, ::2], out.T[:, ::-1][:6, :6], 6)
put("kang-strided", out)
out = np.zeros((6, 12), dtype=FIELD)
_calculate_euclidean_distance(big.T[::2].T[::-1], out[:, ::2], 4, 6)
put("keuc-strided", out)

# ------------------------------------------------------------------ Grid
for N in (1, 2, 5, 40):
    for D in (1, 2, 3):
        space = rng.uniform(-50, 50, (D, N))
        if N >= 5:
            space[:, 3] = space[:, 1]          # coincident nodes / ties
        g = Grid(np.arange(4), space, silence_level=2)
        put("g-euc", g.euclidean_distance())
        put("g-euc2", g.euclidean_distance())  # cached call
        put("g-dist", g.distance())
        state("g-state", g)
        for q in range(6):
            x = rng.uniform(-60, 60, D)
            attempt("g-nn", lambda x=x: g.node_number(tuple(x)))
            attempt("g-nn-arr", lambda x=x: g.node_number(x))
            attempt("g-nn-list", lambda x=x: g.node_number(list(x)))
        attempt("g-nn-node", lambda: g.node_number(space[:, 0]))
        attempt("g-nn-wrongdim", lambda: g.node_number((1., 2., 3., 4.)))
        attempt("g-nn-nan", lambda: g.node_number([np.nan] * D))
        attempt("g-nn-str", lambda: g.node_number("ab"))
        attempt("g-coords", lambda: g.node_coordinates(0))
        attempt("g-seq", lambda: g.sequence(0))
        attempt("g-seq-bad", lambda: g.sequence(D))
        state("g-state-after", g)

attempt("g-empty-euc", lambda: Grid(
    np.arange(2), np.zeros((2, 0)), 2).euclidean_distance())
attempt("g-empty-nn", lambda: Grid(
    np.arange(2), np.zeros((2, 0)), 2).node_number((0., 0.)))

for axes in ([np.array([0., 5.]), np.array([1., 2.])],
             [np.array([0., 5., 7.]), np.array([1., 2.]),
              np.array([-1., 0., 3., 9.])],
             [np.arange(4)],
             [np.array([1, 2, 3]), np.array([0.5])],
             (np.array([3., 1.]), np.array([2., 2., 2.])),
             [[1, 2], [3, 4, 5]],
             []):
    attempt("g-rect", lambda axes=axes:
            Grid.coord_sequence_from_rect_grid(axes))

    def _reg(axes=axes):
        g = Grid.RegularGrid(np.arange(3), axes, 2)
        return [g._grid["space"], g.euclidean_distance(), np.asarray(g.N)]
    attempt("g-regular", _reg)
attempt("g-small", lambda: Grid.SmallTestGrid().euclidean_distance())
attempt("g-small-nn", lambda: Grid.SmallTestGrid().node_number(x=(14., 9.)))

# ---------------------------------------------------------------- GeoGrid
geogrids = []
for N in (1, 2, 6, 50):
    lat = rng.uniform(-90, 90, N)
    lon = rng.uniform(-180, 360, N)
    if N >= 6:
        lat[0], lon[0] = 90., 10.            # pole
        lat[1], lon[1] = -90., 200.          # antipode of node 0
        lat[2], lon[2] = lat[3], lon[3]      # coincident nodes
        lat[4], lon[4] = -lat[3], lon[3] + 180.   # antipodal pair
    gg = GeoGrid(np.arange(5), lat, lon, silence_level=2)
    geogrids.append((gg, lat, lon))
    put("gg-ang", gg.angular_distance())
    put("gg-ang2", gg.angular_distance())
    put("gg-dist", gg.distance())
    put("gg-euc", gg.euclidean_distance())
    for f in ("cos_lat", "sin_lat", "cos_lon", "sin_lon", "lat_sequence",
              "lon_sequence"):
        put("gg-" + f, getattr(gg, f)())
    state("gg-state", gg)
    for q in range(8):
        la, lo = rng.uniform(-90, 90), rng.uniform(-180, 360)
        attempt("gg-nn", lambda: gg.node_number(la, lo))
        attempt("gg-nn-kw", lambda: gg.node_number(lat_node=la, lon_node=lo))
        attempt("gg-nn-f32", lambda: gg.node_number(
            np.float32(la), np.float32(lo)))
        attempt("gg-nn-int", lambda: gg.node_number(int(la), int(lo)))
    for k in range(min(N, 6)):
        attempt("gg-nn-self", lambda: gg.node_number(lat[k], lon[k]))
    attempt("gg-nn-nan", lambda: gg.node_number(np.nan, 0.))
    attempt("gg-nn-inf", lambda: gg.node_number(0., np.inf))
    attempt("gg-nn-str", lambda: gg.node_number("a", 1.))
    attempt("gg-nn-none", lambda: gg.node_number(None, 1.))
    attempt("gg-nn-arr", lambda: gg.node_number(np.array([1., 2.]), 3.))
    attempt("gg-nn-arrN", lambda: gg.node_number(np.zeros(N), np.ones(N)))
    attempt("gg-conv", lambda: gg.convert_lon_coordinates(lon))
    attempt("gg-conv-short", lambda: gg.convert_lon_coordinates(lon[:-1]))
    attempt("gg-bound", lambda: repr(sorted(gg.boundaries().items())))
    attempt("gg-pb", gg.print_boundaries)
    attempt("gg-grid", lambda: [gg.grid()[k] for k in ("time", "lat", "lon")])
    region = np.array([-10., -20., -10., 60., 120., 60., 120., -20.])
    attempt("gg-region", lambda: gg.region_indices(region))
    attempt("gg-region-int", lambda: gg.region_indices(
        region.astype(int)))
    attempt("gg-region-odd", lambda: gg.region_indices(region[:-1]))
    attempt("gg-region-list", lambda: gg.region_indices(list(region)))
    put("gg-region-arg", region)
    state("gg-state-after", gg)

attempt("gg-empty", lambda: GeoGrid(
    np.arange(2), np.zeros(0), np.zeros(0), 2).angular_distance())
attempt("gg-empty-nn", lambda: GeoGrid(
    np.arange(2), np.zeros(0), np.zeros(0), 2).node_number(0., 0.))
attempt("gg-pos-region", lambda: GeoGrid(
    np.arange(2), np.array([0., 10., 20.]), np.array([0., 100., 350.]), 2
    ).region_indices(np.array([-20., -5., -20., 25., 5., 25., 5., -5.])))
for la, lo in ((np.array([0., 5.]), np.array([1., 2.])),
               (np.arange(-80, 81, 40), np.arange(0, 360, 90)),
               ([1, 2, 3], [4.5]),
               (np.array([]), np.array([1.]))):
    attempt("gg-rect", lambda: GeoGrid.coord_sequence_from_rect_grid(la, lo))

    def _reg():
        g = GeoGrid.RegularGrid(np.arange(3), (la, lo), 2)
        return [g._grid["space"], g.angular_distance(),
                np.asarray(g.node_number(3., 4.))]
    attempt("gg-regular", _reg)
attempt("gg-regular-bad", lambda: GeoGrid.RegularGrid(
    np.arange(3), (np.arange(2),), 2))
attempt("gg-small", lambda: GeoGrid.SmallTestGrid().angular_distance())
attempt("gg-small-nn", lambda: GeoGrid.SmallTestGrid().node_number(
    lat_node=14., lon_node=9.))

# ------------------------------------------------------------- GeoNetwork
for gg, lat, lon in geogrids:
    N = gg.N
    for directed in (False, True):
        A = (rng.random((N, N)) < 0.35).astype(int)
        np.fill_diagonal(A, 0)
        if not directed:
            A = np.maximum(A, A.T)
        for sl in (2, 0):
            for nwt in ("surface", "irrigation", None, "bogus"):
                buf = io.StringIO()

                def _net():
                    with contextlib.redirect_stdout(buf):
                        net = GeoNetwork(gg, adjacency=A, directed=directed,
                                         node_weight_type=nwt,
                                         silence_level=sl)
                        res = [net.node_weights,
                               np.asarray(repr(net.node_weight_type)),
                               np.asarray(net.total_node_weight),
                               np.asarray(net.mean_node_weight),
                               net.inarea_weighted_connectivity(),
                               net.outarea_weighted_connectivity(),
                               net.area_weighted_connectivity(),
                               net.nsi_degree()]
                        net.set_node_weight_type("irrigation")
                        res += [net.node_weights, net.nsi_degree(),
                                np.asarray(repr(net.node_weight_type))]
                        net.set_node_weight_type(None)
                        res += [net.node_weights, net.nsi_degree(),
                                np.asarray(repr(net.node_weight_type))]
                        net.set_node_weight_type("surface")
                        res += [net.node_weights, net.nsi_degree(),
                                net.area_weighted_connectivity(),
                                np.asarray(repr(net.node_weight_type))]
                        if N >= 6:
                            res += list(
                                net.area_weighted_connectivity_distribution(4))
                            res += list(
                                net.
                                area_weighted_connectivity_cumulative_distribution(4))
                    return res
                attempt(f"net{N}.{directed}.{sl}.{nwt}", _net)
                put("net-stdout", buf.getvalue())
attempt("net-small", lambda: [
    GeoNetwork.SmallTestNetwork().area_weighted_connectivity(),
    GeoNetwork.SmallTestNetwork().inarea_weighted_connectivity(),
    GeoNetwork.SmallTestNetwork().outarea_weighted_connectivity(),
    GeoNetwork.SmallTestNetwork().node_weights])

print(H.hexdigest())
