"""Equivalence digest for property C05 (network representations agree and
survive save/load).  Run as
    PYTHONPATH=<worktree>/src /venv/bin/python equiv.py
Prints one sha256 digest; identical on pristine and refactored trees."""
import contextlib
import hashlib
import io
import os
import tempfile
import warnings

import numpy as np
import scipy.sparse as sp
import igraph

from pyunicorn.core.network import Network, NetworkError
from pyunicorn.core.grid import Grid
from pyunicorn.core.geo_grid import GeoGrid
from pyunicorn.core.spatial_network import SpatialNetwork
from pyunicorn.core.geo_network import GeoNetwork

warnings.simplefilter("ignore")
H = hashlib.sha256()
LOG = []
TMP = tempfile.mkdtemp(prefix="twc05_")


def put(tag, obj):
    if isinstance(obj, np.ndarray):
        s = f"{tag}|nd|{obj.dtype.str}|{obj.shape}|".encode() + \
            np.ascontiguousarray(obj).tobytes()
    elif isinstance(obj, (float, np.floating)):
        s = f"{tag}|f|{type(obj).__name__}|{float(obj).hex()}".encode()
    else:
        s = f"{tag}|{type(obj).__name__}|{obj!r}".replace(
            TMP, "<TMP>").encode()
    H.update(s)
    H.update(b"\n")
    LOG.append(s[:120])


def state(tag, net):
    put(tag + ".cls", type(net).__name__)
    put(tag + ".N", net.N)
    put(tag + ".n_links", net.n_links)
    put(tag + ".density", net.link_density)
    put(tag + ".directed", net.directed)
    put(tag + ".sp_dtype", repr(net.sp_dtype))
    put(tag + ".spA.fmt", net.sp_A.format)
    put(tag + ".spA.dtype", net.sp_A.dtype.str)
    put(tag + ".A", net.adjacency)
    put(tag + ".g.n", net.graph.vcount())
    put(tag + ".g.dir", net.graph.is_directed())
    put(tag + ".g.edges", net.graph.get_edgelist())
    put(tag + ".g.vattrs", sorted(net.graph.vs.attribute_names()))
    put(tag + ".g.eattrs", sorted(net.graph.es.attribute_names()))
    for a in sorted(net.graph.es.attribute_names()):
        try:
            put(tag + ".la." + a, net.link_attribute(a))
        except Exception as e:  # noqa
            put(tag + ".la." + a + ".exc", (type(e).__name__, str(e)))
            put(tag + ".la." + a + ".raw", net.graph.es[a])
    put(tag + ".nw", net.node_weights)
    put(tag + ".tot", net.total_node_weight)
    put(tag + ".mean", net.mean_node_weight)
    put(tag + ".mut", (net._mut_A, net._mut_nw, net._mut_la))
    put(tag + ".str", str(net))
    if hasattr(net, "node_weight_type"):
        put(tag + ".nwt", net.node_weight_type)


def attempt(tag, fn):
    """Run fn, record result state or exception type + message + stdout."""
    buf = io.StringIO()
    res = None
    try:
        with contextlib.redirect_stdout(buf):
            res = fn()
    except BaseException as e:  # noqa
        put(tag + ".exc", (type(e).__name__, str(e)))
    put(tag + ".stdout", buf.getvalue())
    return res


def rand_adj(rng, n, p, directed):
    A = (rng.random((n, n)) < p).astype(int)
    np.fill_diagonal(A, 0)
    if not directed:
        A = np.triu(A, 1)
        A = A + A.T
    return A


def edge_list_of(A, directed):
    if directed:
        return np.array(np.nonzero(A)).T
    return np.array(np.nonzero(np.triu(A, 1))).T


def main():
    rng = np.random.default_rng(20240505)
    tmp = TMP
    cases = []
    for n, p in [(2, 1.0), (3, 0.0), (5, 0.15), (6, 0.5), (9, 0.3),
                 (17, 0.2), (30, 0.1), (40, 0.9)]:
        for directed in (False, True):
            cases.append((n, p, directed, rand_adj(rng, n, p, directed)))
    # single link / isolated nodes
    one = np.zeros((7, 7), dtype=int)
    one[2, 5] = one[5, 2] = 1
    cases.append((7, -1, False, one))
    oned = np.zeros((7, 7), dtype=int)
    oned[4, 1] = 1
    cases.append((7, -1, True, oned))

    for k, (n, p, directed, A) in enumerate(cases):
        t = f"c{k}"
        w = rng.random(n) * 3 + 0.1
        W = rng.random((n, n))
        if not directed:
            W = W + W.T
        # --- dense, list, sparse in several formats
        nets = {}
        nets["dense"] = attempt(t + ".dense", lambda: Network(
            adjacency=A, directed=directed, node_weights=w, silence_level=2))
        nets["list"] = attempt(t + ".list", lambda: Network(
            adjacency=A.tolist(), directed=directed, silence_level=2))
        for fmt in ("csc", "csr", "coo", "lil"):
            nets[fmt] = attempt(t + "." + fmt, lambda: Network(
                adjacency=sp.csc_matrix(A).asformat(fmt), directed=directed,
                node_weights=list(w), silence_level=2))
        nets["int8"] = attempt(t + ".int8", lambda: Network(
            adjacency=A.astype(np.int8), directed=directed, silence_level=2))
        nets["bool"] = attempt(t + ".bool", lambda: Network(
            adjacency=A.astype(bool), directed=directed, silence_level=2))
        # --- edge list
        el = edge_list_of(A, directed)
        nets["el"] = attempt(t + ".el", lambda: Network(
            edge_list=el, n_nodes=n, directed=directed, node_weights=w,
            silence_level=2))
        nets["el_auto"] = attempt(t + ".el_auto", lambda: Network(
            edge_list=el.tolist(), directed=directed, silence_level=2))
        # --- igraph
        g = igraph.Graph(n=n, edges=el.tolist(), directed=directed)
        nets["ig"] = attempt(t + ".ig",
                             lambda: Network.FromIGraph(g, silence_level=2))
        g2 = igraph.Graph(n=n, edges=el.tolist(), directed=directed)
        g2.vs["node_weight_nsi"] = list(w)
        g2.es["wt"] = [float(W[e]) for e in g2.get_edgelist()]
        nets["igw"] = attempt(t + ".igw",
                              lambda: Network.FromIGraph(g2, silence_level=2))
        for name in sorted(nets):
            if nets[name] is not None:
                state(f"{t}.{name}", nets[name])
        base = nets["dense"]
        if base is None:
            continue
        # --- copies
        for cname in ("copy", "undirected_copy"):
            c = attempt(f"{t}.{cname}", getattr(base, cname))
            if c is not None:
                state(f"{t}.{cname}", c)
        perm = rng.permutation(n)
        c = attempt(t + ".perm", lambda: base.permuted_copy(perm))
        if c is not None:
            state(t + ".perm", c)
        # --- link attributes + save / load
        attempt(t + ".setla", lambda: base.set_link_attribute("wt", W))
        attempt(t + ".setna", lambda: base.set_node_attribute(
            "lbl", list(range(n))))
        state(t + ".withla", base)
        for ext in ("graphml", "gml", "pickle", "edgelist", "net"):
            fn = os.path.join(tmp, f"{t}.{ext}")
            attempt(f"{t}.save.{ext}", lambda: base.save(fn))
            ld = attempt(f"{t}.load.{ext}",
                         lambda: Network.Load(fn, silence_level=2))
            if ld is not None:
                state(f"{t}.load.{ext}", ld)
        fn = os.path.join(tmp, f"{t}.fmt")
        attempt(t + ".save.fmt", lambda: base.save(fn, "graphmlz"))
        ld = attempt(t + ".load.fmt",
                     lambda: Network.Load(fn, "graphmlz", 2))
        if ld is not None:
            state(t + ".load.fmt", ld)
        # --- mutate live object: setters
        attempt(t + ".nw.none", lambda: setattr(base, "node_weights", None))
        state(t + ".nw.none", base)
        attempt(t + ".nw.bad",
                lambda: setattr(base, "node_weights", np.ones(n + 1)))
        attempt(t + ".nw.scalar", lambda: setattr(base, "node_weights", 3.0))
        attempt(t + ".nw.int",
                lambda: setattr(base, "node_weights", list(range(n))))
        state(t + ".nw.int", base)
        attempt(t + ".nw.2d",
                lambda: setattr(base, "node_weights", np.ones((n, 2))))
        state(t + ".nw.2d", base)
        attempt(t + ".nw.str",
                lambda: setattr(base, "node_weights", ["a"] * n))
        state(t + ".nw.str", base)
        B = rand_adj(rng, n + 1, 0.4, directed)
        attempt(t + ".adj.set", lambda: setattr(base, "adjacency", B))
        state(t + ".adj.set", base)
        attempt(t + ".el.set", lambda: base.set_edge_list(el))
        state(t + ".el.set", base)
        attempt(t + ".el.set2", lambda: base.set_edge_list(el, n + 3))
        state(t + ".el.set2", base)
        attempt(t + ".adj.nonsq",
                lambda: setattr(base, "adjacency", np.ones((2, 3))))
        put(t + ".adj.nonsq.state", (base.N, base.n_links, repr(base.sp_A),
                                     base.link_density, base._mut_A))
        attempt(t + ".adj.restore", lambda: setattr(base, "adjacency", A))
        attempt(t + ".adj.one", lambda: setattr(base, "adjacency", [[0]]))
        put(t + ".adj.one.state", (base.N, base.n_links, base.link_density,
                                   repr(base.sp_dtype), base._mut_A,
                                   base.graph.vcount()))
        attempt(t + ".adj.diag", lambda: setattr(base, "adjacency", [[1]]))
        put(t + ".adj.diag.state", (base.N, base.n_links, base.link_density,
                                    base._mut_A, base.graph.vcount()))
        attempt(t + ".adj.ragged",
                lambda: setattr(base, "adjacency", [[0, 1], [1]]))
        put(t + ".adj.ragged.state", (base.N, repr(base.sp_A), base._mut_A))
        attempt(t + ".adj.restore2", lambda: setattr(base, "adjacency", A))
        state(t + ".adj.restore2", base)

    # --- odd edge lists / igraph objects
    odd = {
        "empty": [], "empty2": np.zeros((0, 2), dtype=int),
        "three": [[0, 1, 2], [1, 2, 0]], "flat": [0, 1],
        "float": [[0., 1.], [1., 2.]], "neg": [[0, -1]],
        "loop": [[0, 0], [0, 1]], "multi": [[0, 1], [0, 1], [1, 0], [2, 1]],
        "tuple": ((0, 3), (3, 2)), "small_n": [[0, 5]],
    }
    for name, el in odd.items():
        for directed in (False, True):
            for nn in (None, 4):
                t = f"odd.{name}.{directed}.{nn}"
                net = attempt(t, lambda: Network(
                    edge_list=el, n_nodes=nn, directed=directed,
                    silence_level=2))
                if net is not None:
                    state(t, net)
    for name, g in {
        "empty0": igraph.Graph(), "empty3": igraph.Graph(n=3),
        "empty3d": igraph.Graph(n=3, directed=True),
        "multi": igraph.Graph(n=3, edges=[(0, 1), (0, 1), (1, 2)]),
        "loop": igraph.Graph(n=3, edges=[(0, 0), (1, 2)], directed=True),
        "star": igraph.Graph.Star(6),
        "ring_d": igraph.Graph.Ring(5, directed=True),
    }.items():
        if name == "star":
            g.vs["node_weight_nsi"] = ["a", "b", "c", "d", "e", "f"]
        if name == "ring_d":
            g.vs["node_weight_nsi"] = [1, 2, 3, 4, 5]
            g.es["x"] = ["p", "q", "r", "s", "t"]
        net = attempt("ig." + name, lambda: Network.FromIGraph(g, 2))
        if net is not None:
            state("ig." + name, net)

    attempt("noargs", lambda: Network(silence_level=2))

    # --- large N switches sparse dtype
    for n in (32766, 32767, 32768):
        big = sp.coo_matrix(([1, 1], ([0, n - 1], [n - 1, 0])), shape=(n, n))
        net = attempt(f"big{n}", lambda: Network(adjacency=big,
                                                 silence_level=2))
        put(f"big{n}.s", (net.N, net.n_links, net.link_density,
                          repr(net.sp_dtype), net.sp_A.dtype.str,
                          net.graph.get_edgelist(), net.total_node_weight,
                          net.mean_node_weight))
        net = attempt(f"bigel{n}", lambda: Network(edge_list=[[0, n - 1]],
                                                   silence_level=2))
        put(f"bigel{n}.s", (net.N, net.n_links, net.link_density,
                            repr(net.sp_dtype), net.sp_A.dtype.str,
                            net.graph.get_edgelist()))

    # --- spatial / geo networks
    for k, directed in enumerate((False, True)):
        n = 8
        A = rand_adj(rng, n, 0.4, directed)
        lat = np.linspace(-80, 85, n)
        lon = np.linspace(-170, 160, n)
        grid = Grid(np.arange(4), np.vstack((lat, lon)), silence_level=2)
        ggrid = GeoGrid(np.arange(4), lat, lon, silence_level=2)
        W = rng.random((n, n))
        if not directed:
            W = W + W.T
        t = f"sp{k}"
        snet = attempt(t + ".new", lambda: SpatialNetwork(
            grid=grid, adjacency=A, directed=directed, silence_level=2))
        state(t + ".new", snet)
        snet.set_link_attribute("w", W)
        snet.node_weights = rng.random(n) + 0.5
        fn = (os.path.join(tmp, t + ".graphml"), os.path.join(tmp, t + ".p"))
        attempt(t + ".save", lambda: snet.save(fn))
        ld = attempt(t + ".load", lambda: SpatialNetwork.Load(fn))
        state(t + ".load", ld)
        put(t + ".load.grid", ld.grid.grid()["space"])
        attempt(t + ".save.list", lambda: snet.save(list(fn), "graphml"))
        attempt(t + ".save.nogrid", lambda: snet.save(
            (os.path.join(tmp, t + "b.gml"), None)))
        attempt(t + ".save.bad1", lambda: snet.save("abc"))
        attempt(t + ".save.bad2", lambda: snet.save(("a", "b", "c")))
        attempt(t + ".save.bad3", lambda: snet.save(5))
        attempt(t + ".load.bad1", lambda: SpatialNetwork.Load("abc"))
        attempt(t + ".load.bad2", lambda: SpatialNetwork.Load(("a",)))
        attempt(t + ".load.missing", lambda: SpatialNetwork.Load(
            (os.path.join(tmp, "nope.graphml"), os.path.join(tmp, "nope.p"))))
        attempt(t + ".load.missing2", lambda: SpatialNetwork.Load(
            (os.path.join(tmp, "nope.graphml"), fn[1])))
        # edgelist format has no node weights
        fn2 = (os.path.join(tmp, t + ".edgelist"), fn[1])
        attempt(t + ".save.el", lambda: snet.save(fn2))
        ld = attempt(t + ".load.el", lambda: SpatialNetwork.Load(
            fn2, silence_level=2))
        if ld is not None:
            state(t + ".load.el", ld)

        t = f"geo{k}"
        for nwt in ("surface", "irrigation", None, "bogus"):
            for sl in (0, 2):
                gnet = attempt(f"{t}.new.{nwt}.{sl}", lambda: GeoNetwork(
                    grid=ggrid, adjacency=A, directed=directed,
                    node_weight_type=nwt, silence_level=sl))
                state(f"{t}.new.{nwt}.{sl}", gnet)
        gnet = GeoNetwork(grid=ggrid, edge_list=edge_list_of(A, directed),
                          directed=directed, silence_level=2)
        state(t + ".el", gnet)
        for nwt in ("irrigation", None, "surface", 7, "surface"):
            attempt(f"{t}.set.{nwt}",
                    lambda: gnet.set_node_weight_type(nwt))
            state(f"{t}.set.{nwt}", gnet)
        attempt(t + ".set.arr",
                lambda: gnet.set_node_weight_type(np.array(["a", "b"])))
        state(t + ".set.arr", gnet)
        gnet.set_node_weight_type("irrigation")
        gnet.set_link_attribute("w", W)
        fn = (os.path.join(tmp, t + ".graphml"), os.path.join(tmp, t + ".p"))
        attempt(t + ".save", lambda: gnet.save(fn))
        ld = attempt(t + ".load", lambda: GeoNetwork.Load(fn))
        state(t + ".load", ld)
        put(t + ".load.lat", ld.grid.lat_sequence())
        ld = attempt(t + ".load.sl", lambda: GeoNetwork.Load(fn, "graphml", 2))
        state(t + ".load.sl", ld)
        fn2 = (os.path.join(tmp, t + ".edgelist"), fn[1])
        attempt(t + ".save.el", lambda: gnet.save(fn2))
        ld = attempt(t + ".load.el", lambda: GeoNetwork.Load(
            fn2, silence_level=2))
        if ld is not None:
            state(t + ".load.el", ld)
        attempt(t + ".load.bad1", lambda: GeoNetwork.Load("abc"))
        attempt(t + ".load.bad2", lambda: GeoNetwork.Load(("a", "b", "c")))
        attempt(t + ".load.missing", lambda: GeoNetwork.Load(
            (os.path.join(tmp, "nope.graphml"), os.path.join(tmp, "nope.p"))))
        attempt(t + ".cgv", lambda: gnet.save_for_cgv(
            os.path.join(tmp, t + "cgv.graphml")))
        ld = attempt(t + ".cgv.load", lambda: Network.Load(
            os.path.join(tmp, t + "cgv.graphml"), silence_level=2))
        state(t + ".cgv.load", ld)

    for cls in (Network, SpatialNetwork, GeoNetwork):
        net = cls.SmallTestNetwork()
        state("small." + cls.__name__, net)
        state("small.copy." + cls.__name__, net.copy())

    if os.environ.get("EQUIV_DUMP"):
        with open(os.environ["EQUIV_DUMP"], "wb") as f:
            f.write(b"\n".join(LOG))
    print(len(LOG), H.hexdigest())


main()
