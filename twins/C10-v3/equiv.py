"""Equivalence digest for twin_3 (timeseries/_ext/src_numerics.c: surrogate
test matrices of Pearson correlation and mutual information)."""
import hashlib
import warnings
from collections import Counter

import numpy as np

from pyunicorn.timeseries import Surrogates
from pyunicorn.timeseries._ext.numerics import (
    _test_pearson_correlation, _test_mutual_information)

warnings.simplefilter("ignore")
h = hashlib.sha256()
exc_types = Counter()


def feed(obj):
    a = np.ascontiguousarray(obj)
    h.update(str(a.dtype).encode())
    h.update(str(a.shape).encode())
    h.update(a.tobytes())


def run(label, fn):
    h.update(label.encode())
    try:
        feed(fn())
    except BaseException as e:  # pylint: disable=broad-except
        h.update(("EXC:" + type(e).__name__ + ":" + str(e)).encode())
        exc_types[type(e).__name__] += 1


def normalize(x):
    x = x - x.mean(axis=1, keepdims=True)
    return x / x.std(axis=1, keepdims=True)


rng = np.random.RandomState(2024)
cases = []
for (N, n_time) in ((1, 1), (1, 17), (2, 5), (3, 64), (5, 100), (8, 33),
                    (12, 250), (4, 1)):
    orig = rng.randn(N, n_time)
    surr = rng.randn(N, n_time)
    cases.append((f"raw_{N}x{n_time}", orig, surr))
    cases.append((f"perm_{N}x{n_time}", orig,
                  orig[rng.permutation(N)][:, rng.permutation(n_time)]))
    if n_time > 1:
        cases.append((f"norm_{N}x{n_time}", normalize(orig), normalize(surr)))
a = rng.randn(6, 80)
a[1] = 0.7 * a[0] + 0.3 * a[1]
a[4] = -a[2]
cases.append(("coupled", normalize(a), normalize(a[:, ::-1].copy())))
cases.append(("same", a, a.copy()))
cases.append(("const", np.full((3, 20), 1.5), np.full((3, 20), 1.5)))
cases.append(("const_vs_rand", np.full((3, 20), 1.5), rng.randn(3, 20)))
cases.append(("ints", rng.randint(0, 5, (4, 60)).astype(float),
              rng.randint(0, 5, (4, 60)).astype(float)))
b = rng.randn(3, 30)
b[1, 4] = np.nan
cases.append(("nan", b, rng.randn(3, 30)))
c = rng.randn(3, 30)
c[2, 7] = np.inf
cases.append(("inf", c, rng.randn(3, 30)))
cases.append(("f32", rng.randn(4, 40).astype(np.float32),
              rng.randn(4, 40).astype(np.float32)))
cases.append(("fortran", np.asfortranarray(rng.randn(5, 30)),
              rng.randn(30, 5).T))
cases.append(("huge", 1e200 * rng.randn(3, 25), 1e-200 * rng.randn(3, 25)))
cases.append(("mismatch", rng.randn(3, 10), rng.randn(3, 11)))
cases.append(("empty_t", np.zeros((3, 0)), np.zeros((3, 0))))
cases.append(("empty_n", np.zeros((0, 5)), np.zeros((0, 5))))

for name, orig, surr in cases:
    o0, s0 = orig.copy(), surr.copy()
    run(f"P/{name}", lambda: Surrogates.test_pearson_correlation(orig, surr))
    for n_bins in (1, 2, 3, 8, 32, 100, 0, -3):
        run(f"MI/{name}/{n_bins}",
            lambda: Surrogates.test_mutual_information(orig, surr,
                                                       n_bins=n_bins))
    run(f"MI/{name}/default",
        lambda: Surrogates.test_mutual_information(orig, surr))
    # inputs must stay untouched
    feed(orig)
    feed(surr)
    assert np.array_equal(o0, orig, equal_nan=True)
    assert np.array_equal(s0, surr, equal_nan=True)

# direct calls of the Cython wrappers (consistent sizes only: the C code is
# not bounds checked), sub-blocks of a larger buffer
big_o = np.ascontiguousarray(rng.randn(6, 50))
big_s = np.ascontiguousarray(rng.randn(6, 50))
for (N, n_time) in ((6, 50), (3, 50), (3, 100), (1, 300), (300, 1), (0, 50)):
    run(f"dP/{N}/{n_time}",
        lambda: _test_pearson_correlation(big_o, big_s, N, n_time))
    for n_bins in (1, 4, 16):
        run(f"dMI/{N}/{n_time}/{n_bins}",
            lambda: _test_mutual_information(big_o, big_s, N, n_time, n_bins))
run("dP/none", lambda: _test_pearson_correlation(None, big_s, 6, 50))
run("dP/zero_t", lambda: _test_pearson_correlation(big_o, big_s, 6, 0))
run("dMI/f32", lambda: _test_mutual_information(
    big_o.astype(np.float32), big_s, 6, 50, 4))

print("exceptions:", sorted(exc_types.items()))
print(h.hexdigest())
