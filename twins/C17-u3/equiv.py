"""Equivalence digest for the model generators, igraph rewiring and the
Python-side drivers of the geographical rewiring models."""
import hashlib
import io
import contextlib
import random as pyrandom
import warnings

import numpy as np
import scipy.sparse as sp

from pyunicorn.core.network import Network
from pyunicorn.core.grid import Grid
from pyunicorn.core.spatial_network import SpatialNetwork

warnings.simplefilter("ignore")
H = hashlib.sha256()
n_exc = 0


def feed(tag, obj):
    H.update(tag.encode())
    if isinstance(obj, (tuple, list)):
        for x in obj:
            feed(tag + ".", x)
    elif sp.issparse(obj):
        H.update(type(obj).__name__.encode())
        feed(tag + "s", obj.toarray())
    elif isinstance(obj, np.ndarray):
        H.update(str(obj.dtype).encode() + str(obj.shape).encode())
        H.update(np.ascontiguousarray(obj).tobytes())
    else:
        H.update(repr(obj).encode())


def run(tag, fn, seed=0):
    global n_exc
    buf = io.StringIO()
    pyrandom.seed(seed)
    np.random.seed(seed)
    try:
        with contextlib.redirect_stdout(buf):
            res = fn()
        feed(tag, res)
    except Exception as e:  # pylint: disable=broad-except
        n_exc += 1
        feed(tag, (type(e).__name__, str(e)))
    feed(tag + ":out", buf.getvalue())
    feed(tag + ":rng", (pyrandom.random(), np.random.random()))


def net_summary(net):
    return (type(net).__name__, net.adjacency, net.directed, net.N,
            net.n_links, net.link_density, net.degree())


# --- generators ---------------------------------------------------------------
for seed in range(4):
    for n in (1, 5, 30, 80):
        run(f"er-p-{n}-{seed}", lambda n=n: Network.ErdosRenyi(
            n_nodes=n, link_probability=0.3), seed)
        run(f"er-m-{n}-{seed}", lambda n=n: Network.ErdosRenyi(
            n_nodes=n, n_links=n * (n - 1) // 4, silence_level=1), seed)
    run(f"er-def-{seed}", lambda: Network.ErdosRenyi(link_probability=0.05,
                                                     silence_level=2), seed)
    for n, m in ((10, 1), (30, 3), (100, 5), (60, 0), (7, 6)):
        run(f"ba-{n}-{m}-{seed}", lambda n=n, m=m: Network.BarabasiAlbert(
            n_nodes=n, n_links_each=m), seed)
        run(f"bai-{n}-{m}-{seed}",
            lambda n=n, m=m: Network.BarabasiAlbert_igraph(
                n_nodes=n, n_links_each=max(m, 1)), seed)
    run(f"cfg-{seed}", lambda: Network.Configuration(
        [3 for _ in range(40)]), seed)
    run(f"cfg2-{seed}", lambda: Network.Configuration(
        np.array([1, 2, 3, 4, 4, 3, 2, 1, 5, 5])), seed)
    run(f"ws-{seed}", lambda: Network.WattsStrogatz(N=50, k=2, p=0.1), seed)
    run(f"ws2-{seed}", lambda: Network.WattsStrogatz(N=20, k=3, p=0.9), seed)
    # through Model
    run(f"M-er-{seed}", lambda: net_summary(Network.Model(
        "ErdosRenyi", n_nodes=10, n_links=18)), seed)
    run(f"M-ba-{seed}", lambda: net_summary(Network.Model(
        "BarabasiAlbert", n_nodes=40, n_links_each=2)), seed)
    run(f"M-bai-{seed}", lambda: net_summary(Network.Model(
        "BarabasiAlbert_igraph", n_nodes=40, n_links_each=2)), seed)
    run(f"M-cfg-{seed}", lambda: net_summary(Network.Model(
        "Configuration", degree=[2] * 20)), seed)
    run(f"M-ws-{seed}", lambda: net_summary(Network.Model(
        "WattsStrogatz", N=30, k=2, p=0.2)), seed)

# error behaviour of the generators
run("er-none", lambda: Network.ErdosRenyi(n_nodes=10))
run("er-both", lambda: Network.ErdosRenyi(n_nodes=10, link_probability=0.1,
                                           n_links=3))
run("er-none-sil", lambda: Network.ErdosRenyi(n_nodes=10, silence_level="x"))
run("er-sil-str", lambda: Network.ErdosRenyi(n_nodes=10, n_links=3,
                                              silence_level="x"))
run("er-sil-str-p", lambda: Network.ErdosRenyi(n_nodes=10,
                                                link_probability=0.5,
                                                silence_level="x"))
run("er-bad-p", lambda: Network.ErdosRenyi(n_nodes=10, link_probability=1.5))
run("er-bad-m", lambda: Network.ErdosRenyi(n_nodes=4, n_links=100))
run("er-neg-n", lambda: Network.ErdosRenyi(n_nodes=-4, n_links=1))
run("ba-m-gt-n", lambda: Network.BarabasiAlbert(n_nodes=4, n_links_each=6))
run("ba-n0", lambda: Network.BarabasiAlbert(n_nodes=0, n_links_each=0))
run("ba-float", lambda: Network.BarabasiAlbert(n_nodes=10., n_links_each=2))
run("cfg-odd", lambda: Network.Configuration([1, 1, 1]))
run("cfg-neg", lambda: Network.Configuration([-1, 1]))
run("ws-bad", lambda: Network.WattsStrogatz(N=10, k=2, p=2.0))
run("model-bad", lambda: Network.Model("NoSuchModel", n=3))

# --- igraph rewiring ----------------------------------------------------------
for seed in range(3):
    def rw(seed=seed):
        net = Network(adjacency=Network.ErdosRenyi(
            n_nodes=25, n_links=60, silence_level=2), silence_level=seed)
        d0 = net.degree().copy()
        net.randomly_rewire(iterations=50)
        return net_summary(net) + (d0,)
    run(f"rewire-{seed}", rw, seed)


# --- geographical rewiring drivers ----------------------------------------
def geo_net(N, p, seed, silence=2):
    rs = np.random.RandomState(seed)
    A = np.triu((rs.random_sample((N, N)) < p).astype(np.int8), 1)
    A = A + A.T
    pos = rs.random_sample((2, N)) * 10
    grid = Grid(np.arange(3.0), pos, silence_level=2)
    return SpatialNetwork(grid=grid, adjacency=A, silence_level=silence)


def geo_case(model, N, p, seed, iters, eps, D="grid", silence=2,
             n_links=None):
    def fn():
        net = geo_net(N, p, seed, silence)
        if n_links is not None:
            net.n_links = n_links
        dist = net.grid.distance() if isinstance(D, str) else D
        mut0 = net._mut_A
        deg0 = net.degree().copy()
        try:
            getattr(net, "randomly_rewire_geomodel_" + model)(
                distance_matrix=dist, iterations=iters, inaccuracy=eps)
        finally:
            feed("state", (net.adjacency, net._mut_A - mut0, net.n_links))
        return net_summary(net) + (deg0, np.array(net.graph.get_edgelist()))
    return fn


for model in ("I", "II", "III"):
    for seed in (1, 2, 3):
        run(f"g{model}-{seed}", geo_case(model, 30, 0.4, seed, 30, 6.0), seed)
        run(f"g{model}-{seed}-v", geo_case(model, 30, 0.4, seed, 3, 1e6,
                                           silence=seed - 1), seed)
    run(f"g{model}-list", geo_case(model, 30, 0.4, 4, 5, 1e6,
                                   D=np.ones((30, 30), dtype=np.float64)), 4)
    run(f"g{model}-eps-str", geo_case(model, 30, 0.4, 4, 5, "7.5"), 4)
    # error precedence: which bad argument is reported first
    run(f"g{model}-eps-bad", geo_case(model, 30, 0.4, 4, 5, "abc"), 4)
    run(f"g{model}-D-bad", geo_case(model, 30, 0.4, 4, 5, 1.0,
                                    D=np.ones((30, 30), dtype=complex)), 4)
    run(f"g{model}-both-bad", geo_case(model, 30, 0.4, 4, 5, None,
                                       D=np.ones((30, 30), dtype=complex)), 4)
    run(f"g{model}-D-nolist", geo_case(model, 30, 0.4, 4, 5, None,
                                       D=[[1.0] * 30] * 30), 4)
    run(f"g{model}-it-bad", geo_case(model, 30, 0.4, 4, "q", 1.0), 4)
    if model != "III":  # (III may not terminate on a truncated edge list)
        run(f"g{model}-nl-float", geo_case(model, 30, 0.4, 4, 3, 1e6,
                                           n_links=20.0), 4)
    run(f"g{model}-nl-str", geo_case(model, 30, 0.4, 4, 3, 1e6,
                                     n_links="x", D=[[1.0]]), 4)

print(n_exc, H.hexdigest())
