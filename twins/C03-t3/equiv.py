"""Equivalence digest for twin_3 (Network.assortativity and
Network.link_betweenness: explicit accumulation loops vs. comprehensions).
Run as  PYTHONPATH=<worktree>/src /venv/bin/python equiv.py
"""
import hashlib
import io
import contextlib

import numpy as np

from pyunicorn.core.network import Network

H = hashlib.sha256()


def feed(tag, value):
    H.update(tag.encode())
    if isinstance(value, BaseException):
        H.update(("EXC:" + type(value).__name__ + ":" + str(value)).encode())
    else:
        H.update(type(value).__name__.encode())
        a = np.asarray(value)
        H.update(repr((a.dtype.str, a.shape)).encode())
        H.update(np.ascontiguousarray(a).tobytes())


def attempt(tag, fun, *args, **kwargs):
    out = io.StringIO()
    try:
        with contextlib.redirect_stdout(out), np.errstate(all="ignore"):
            res = fun(*args, **kwargs)
    except Exception as e:  # pylint: disable=broad-except
        res = e
    feed(tag, res)
    H.update(out.getvalue().encode())


def random_adjacency(rng, N, p, directed=False):
    A = (rng.random((N, N)) < p).astype(np.int8)
    np.fill_diagonal(A, 0)
    if not directed:
        A = np.triu(A, 1)
        A = A + A.T
    return A


rng = np.random.default_rng(90125)
cases = []
for N, p in [(2, 0.0), (2, 1.0), (3, 1.0), (4, 0.5), (5, 0.0), (6, 0.4),
             (6, 1.0), (9, 0.3), (13, 0.2), (17, 0.5), (25, 0.1), (32, 0.35),
             (50, 0.07)]:
    cases.append((False, random_adjacency(rng, N, p)))
for N, p in [(2, 1.0), (3, 0.5), (5, 0.0), (6, 0.4), (9, 0.3), (14, 0.2),
             (20, 0.5), (33, 0.1)]:
    cases.append((True, random_adjacency(rng, N, p, directed=True)))
# regular graphs (zero variance of degrees -> 0/0), star, path
ring = np.zeros((8, 8), dtype=np.int8)
for i in range(8):
    ring[i, (i + 1) % 8] = ring[(i + 1) % 8, i] = 1
cases.append((False, ring))
star = np.zeros((9, 9), dtype=np.int8)
star[0, 1:] = star[1:, 0] = 1
cases.append((False, star))
path = np.zeros((6, 6), dtype=np.int8)
for i in range(5):
    path[i, i + 1] = path[i + 1, i] = 1
cases.append((False, path))
cases.append((True, np.triu(np.ones((6, 6), dtype=np.int8), 1)))
cases.append((True, np.tril(np.ones((6, 6), dtype=np.int8), -1)))

for idx, (directed, A) in enumerate(cases):
    for sl in (3, 0):
        net = Network(adjacency=A, directed=directed, silence_level=sl)
        attempt(f"as{idx}-{sl}", net.assortativity)
        attempt(f"lb{idx}-{sl}", net.link_betweenness)
        attempt(f"eb{idx}-{sl}", net.edge_betweenness)
        # results must be independent objects, mutate and ask again
        attempt(f"as2{idx}-{sl}", net.assortativity)
    net = Network(adjacency=A, directed=directed, silence_level=3)
    lb = net.link_betweenness()
    attempt(f"sym{idx}", lambda m=lb: np.array_equal(m, m.T))
    # after a change of the adjacency the measures follow
    if A.shape[0] > 3:
        A2 = A.copy()
        A2[0, 1] = A2[1, 0] = 1 - A2[0, 1]
        net.adjacency = A2
        attempt(f"lbm{idx}", net.link_betweenness)
        attempt(f"asm{idx}", net.assortativity)

net = Network.SmallTestNetwork()
attempt("small-as", net.assortativity)
attempt("small-lb", net.link_betweenness)
net = Network.SmallDirectedTestNetwork()
attempt("smalld-as", net.assortativity)
attempt("smalld-lb", net.link_betweenness)

print(H.hexdigest())
