"""
Property C03: degrees and strengths equal their definitions on the adjacency
matrix A resp. the link weight matrix W (W[i, j] = weight of the link i -> j,
0 if there is no link), for directed and undirected simple graphs and all
link-weight assignments:

    outdegree  k_out[i] = sum_j A[i, j]        out-strength  sum_j W[i, j]
    indegree   k_in[i]  = sum_j A[j, i]        in-strength   sum_j W[j, i]
    degree     k_in + k_out (directed), k_out (undirected); same for strength
    bilateral degree   sum_j A[i, j] A[j, i]
    bilateral strength sum_j W[i, j] W[j, i]

The reference values are computed with plain loops over the matrices.
"""
import sys
import numpy as np

from pyunicorn import Network


def reference(M, directed):
    N = len(M)
    out = np.array([sum(M[i][j] for j in range(N)) for i in range(N)])
    inn = np.array([sum(M[j][i] for j in range(N)) for i in range(N)])
    bil = np.array([sum(M[i][j] * M[j][i] for j in range(N))
                    for i in range(N)])
    return {"degree": inn + out if directed else out,
            "indegree": inn, "outdegree": out, "bildegree": bil}


def random_adjacency(rng, N, p, directed):
    A = (rng.random((N, N)) < p).astype(int)
    np.fill_diagonal(A, 0)
    if not directed:
        A = np.triu(A, 1)
        A = A + A.T
    return A


def main():
    rng = np.random.default_rng(7)
    failures = []
    n_checked = 0
    for directed in (False, True):
        for N in (2, 3, 5, 8, 13, 25, 40):
            for p in (0.0, 0.15, 0.5, 0.85, 1.0):
                A = random_adjacency(rng, N, p, directed)
                W = rng.uniform(0.1, 3.0, size=(N, N))
                if not directed:
                    W = (W + W.T) / 2
                W = W * A
                net = Network(adjacency=A, directed=directed,
                              silence_level=3)
                net.set_link_attribute("w", W)

                ref_A = reference(A, directed)
                ref_W = reference(W, directed)
                for name in ("degree", "indegree", "outdegree", "bildegree"):
                    n_checked += 2
                    got = np.asarray(getattr(net, name)())
                    if got.shape != (N,) or not np.array_equal(
                            got, ref_A[name]):
                        failures.append((name + "()", directed, N, p,
                                         got, ref_A[name]))
                    got = np.asarray(getattr(net, name)("w"))
                    if got.shape != (N,) or not np.allclose(
                            got, ref_W[name], atol=1e-10):
                        failures.append((name + "(key)", directed, N, p,
                                         got, ref_W[name]))

    if failures:
        print(f"FAIL: {len(failures)} of {n_checked} degree/strength checks "
              "differ from the definition")
        seen = set()
        for what, directed, N, p, got, want in failures:
            if what in seen:
                continue
            seen.add(what)
            kind = "directed" if directed else "undirected"
            print(f"  {what} on a {kind} graph, N={N}, density~{p}:")
            print("    library   :", np.round(got[:8], 4))
            print("    definition:", np.round(want[:8], 4))
        sys.exit(1)
    print("PASS")
    sys.exit(0)


if __name__ == "__main__":
    main()
