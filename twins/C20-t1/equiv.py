"""Equivalence digest for twin_1 (climate/_ext/src_numerics.c::_spearman_corr).

Run as:  PYTHONPATH=<worktree>/src /venv/bin/python equiv.py
"""
import hashlib
import warnings

import numpy as np

from pyunicorn.climate._ext.numerics import spearman_corr
from pyunicorn.climate.rainfall import RainfallClimateNetwork
from pyunicorn.core._ext.types import to_cy, MASK, FIELD

warnings.simplefilter("ignore")
h = hashlib.sha256()


def feed(tag, obj):
    h.update(tag.encode())
    if isinstance(obj, np.ndarray):
        h.update(str(obj.dtype).encode())
        h.update(repr(obj.shape).encode())
        h.update(np.ascontiguousarray(obj).tobytes())
    else:
        h.update(repr(obj).encode())


def call(tag, fn, *args):
    try:
        feed(tag, fn(*args))
    except Exception as exc:  # pylint: disable=broad-except
        feed(tag, "EXC:" + type(exc).__name__)


rng = np.random.RandomState(20)

# 1) direct kernel calls over a spread of shapes (incl. empty, single
#    sample, single node, more nodes than samples)
for m in (0, 1, 2, 3, 5, 8, 13):
    for tmax in (0, 1, 2, 3, 7, 16, 33):
        for density in (0.0, 0.3, 0.8, 1.0):
            mask = (rng.rand(m, tmax) < density)
            anomaly = rng.randn(m, tmax)
            ranked = anomaly.argsort(axis=1).argsort(axis=1) + 1.0
            mask_c = to_cy(mask, MASK)
            ranked_c = to_cy(ranked, FIELD)
            before = (mask_c.copy(), ranked_c.copy())
            call(f"k/{m}/{tmax}/{density}", spearman_corr,
                 m, tmax, mask_c, ranked_c)
            # inputs must be left untouched
            feed("in", mask_c)
            feed("in", ranked_c)
            assert (before[0] == mask_c).all() and (before[1] == ranked_c).all()

# 2) the public-API path (method does ranking, shape check and conversion)
for m, tmax in ((0, 0), (0, 4), (4, 0), (1, 1), (1, 9), (6, 3), (4, 25),
                (10, 40)):
    for density in (0.2, 0.6, 1.0):
        anomaly = rng.randn(m, tmax)
        # ties in the data
        anomaly = np.round(anomaly, 1)
        mask = rng.rand(m, tmax) < density
        call(f"api/{m}/{tmax}/{density}",
             RainfallClimateNetwork.spearman_corr,
             RainfallClimateNetwork, mask, anomaly)
        call(f"api32/{m}/{tmax}/{density}",
             RainfallClimateNetwork.spearman_corr,
             RainfallClimateNetwork, mask.astype(np.int8),
             anomaly.astype(np.float32))

# 3) error behaviour of the wrapper
call("err/shape", RainfallClimateNetwork.spearman_corr,
     RainfallClimateNetwork, np.zeros((3, 4), bool), np.zeros((3, 5)))
call("err/none", spearman_corr, 2, 2, None, np.zeros((2, 2), np.float32))
call("err/dtype", spearman_corr, 2, 2, np.zeros((2, 2), np.int8),
     np.zeros((2, 2), np.float64))
call("err/ndim", spearman_corr, 2, 2, np.zeros(4, np.int8),
     np.zeros((2, 2), np.float32))
call("err/negm", spearman_corr, -1, 2, np.zeros((2, 2), np.int8),
     np.zeros((2, 2), np.float32))

print(h.hexdigest())
