"""Digest of Network.BarabasiAlbert over a spread of sizes and seeds."""
import hashlib
import warnings

import numpy as np

from pyunicorn.core.network import Network

warnings.simplefilter("ignore")
h = hashlib.sha256()


def feed(*parts):
    for p in parts:
        if isinstance(p, np.ndarray):
            h.update(str(p.dtype).encode())
            h.update(str(p.shape).encode())
            h.update(np.ascontiguousarray(p).tobytes())
        else:
            h.update(repr(p).encode())
        h.update(b"|")


CASES = [(2, 1), (3, 1), (5, 1), (5, 2), (6, 3), (8, 7), (10, 3), (25, 1),
         (25, 4), (40, 10), (60, 5), (100, 5), (100, 1), (150, 20),
         # degenerate parameters
         (1, 0), (4, 0), (1, 1), (3, 3), (3, 2), (2, 5), (0, 0), (4, -1),
         (0, 1)]

for seed in range(6):
    for (N, m) in CASES:
        np.random.seed(1000 * seed + 7 * N + m)
        try:
            A = Network.BarabasiAlbert(n_nodes=N, n_links_each=m)
        except Exception as e:  # pylint: disable=broad-except
            feed("EXC", N, m, type(e).__name__)
            continue
        feed(N, m, type(A).__name__, str(A.dtype), A.shape, A.nnz)
        feed(A.toarray())
        # order in which the links were stored, and stream position afterwards
        feed([list(r) for r in A.rows], [list(d) for d in A.data])
        feed(np.random.random_sample(3))

# through the public model front end (default parameters as well)
for seed in (11, 12, 13):
    np.random.seed(seed)
    net = Network.Model("BarabasiAlbert", n_nodes=70, n_links_each=3)
    feed(net.adjacency, net.n_links, net.degree())
    np.random.seed(seed)
    feed(Network.BarabasiAlbert().toarray())
    feed(np.random.random_sample(2))

# a large one: int32 pool
np.random.seed(99)
A = Network.BarabasiAlbert(n_nodes=33000, n_links_each=1)
feed(A.nnz, A.tocsr().indices, A.tocsr().indptr)
feed(np.random.random_sample(2))

print(h.hexdigest())
