"""Equivalence digest for C15 twin_2: twin search kernels
(_twins_s / _twins_r) and their Python callers."""
import hashlib
import random
import numpy as np
from pyunicorn.timeseries.surrogates import Surrogates
from pyunicorn.timeseries.recurrence_plot import RecurrencePlot
from pyunicorn.timeseries._ext.numerics import _twins_s, _twins_r
from pyunicorn.core._ext.types import ADJ, DEGREE, DFIELD, LAG, NODE

H = hashlib.sha256()


def put(tag, obj):
    H.update(tag.encode())
    if isinstance(obj, np.ndarray):
        H.update(str(obj.dtype).encode())
        H.update(str(obj.shape).encode())
        H.update(np.ascontiguousarray(obj).tobytes())
    else:
        H.update(repr(obj).encode())


def attempt(tag, fn):
    try:
        put(tag, fn())
    except Exception as e:  # noqa
        put(tag, "EXC:" + type(e).__name__)


def datasets():
    rng = np.random.RandomState(2024)
    yield "periodic", np.array([np.arange(60) % 5, (np.arange(60) * 2) % 7,
                                np.arange(60) % 3], dtype=float)
    yield "discrete", rng.randint(0, 3, size=(4, 45)).astype(float)
    yield "gauss", rng.randn(3, 40)
    yield "small", Surrogates.SmallTestData().original_data[:, :80]
    yield "const", np.ones((2, 25))
    yield "short", rng.randint(0, 2, size=(2, 6)).astype(float)


# --- Surrogates.twins and kernel _twins_s
for name, data in datasets():
    for dim, delay in ((1, 0), (2, 1), (3, 2)):
        for thr in (0.1, 0.6, 2.5):
            for min_dist in (7, 1, 0, 3):
                s = Surrogates(original_data=data.copy(), silence_level=2)
                s.embedding = s.embed_time_series_array(
                    s.original_data, dim, delay, silence_level=2)
                tag = f"S/{name}/{dim}/{delay}/{thr}/{min_dist}"
                attempt(tag, lambda: s.twins(thr, min_dist))
                # cached second call and fresh kernel call with dirty buffers
                attempt(tag + "/again", lambda: s.twins(thr, min_dist))
                emb = np.array(s.embedding)
                N, n_time, d = emb.shape
                R = np.full((n_time, n_time), 5, dtype=ADJ)
                nR = np.full(n_time, 99, dtype=DEGREE)
                tw = ["sentinel"] if False else []

                def kernel():
                    _twins_s(N, n_time, d, thr, min_dist, emb, R, nR, tw)
                    return tw
                attempt(tag + "/kernel", kernel)
                put(tag + "/R", R)
                put(tag + "/nR", nR)
                put(tag + "/state", (s._mut_embedding, s._mut_data))

# --- error / odd paths of _twins_s (partial side effects are recorded)
rng = np.random.RandomState(5)
emb = rng.randint(0, 2, size=(2, 12, 1)).astype(DFIELD)
for min_dist in (-1, -3, -20, 100):
    R = np.zeros((12, 12), dtype=ADJ)
    nR = np.zeros(12, dtype=DEGREE)
    tw = []
    attempt(f"S/err/{min_dist}",
            lambda: _twins_s(2, 12, 1, 0.5, min_dist, emb, R, nR, tw))
    put(f"S/err/{min_dist}/tw", tw)
    put(f"S/err/{min_dist}/R", R)
    put(f"S/err/{min_dist}/nR", nR)
# too small buffers / wrong sizes
for (nt, rs, ns) in ((12, 10, 12), (12, 12, 5), (13, 12, 12), (0, 12, 12)):
    R = np.zeros((rs, rs), dtype=ADJ)
    nR = np.zeros(ns, dtype=DEGREE)
    tw = []
    attempt(f"S/size/{nt}/{rs}/{ns}",
            lambda: _twins_s(2, nt, 1, 0.5, 2, emb, R, nR, tw))
    put(f"S/size/{nt}/{rs}/{ns}/tw", tw)
    put(f"S/size/{nt}/{rs}/{ns}/R", R)
    put(f"S/size/{nt}/{rs}/{ns}/nR", nR)
# pre-populated / non-list twins argument
tw = [["x"]]
R = np.zeros((12, 12), dtype=ADJ)
nR = np.zeros(12, dtype=DEGREE)
attempt("S/prepop", lambda: _twins_s(2, 12, 1, 0.5, 2, emb, R, nR, tw))
put("S/prepop/tw", tw)
attempt("S/none", lambda: _twins_s(1, 12, 1, 0.5, 2, emb, R, nR, None))
attempt("S/tuple", lambda: _twins_s(1, 12, 1, 0.5, 2, emb, R, nR, ()))

# --- RecurrencePlot.twins and kernel _twins_r
for name, data in datasets():
    for row in range(min(2, data.shape[0])):
        for kw in (dict(threshold=0.1), dict(threshold=0.7),
                   dict(recurrence_rate=0.2),
                   dict(threshold=0.6, dim=2, tau=1)):
            for metric in ("supremum", "euclidean"):
                tag = f"R/{name}/{row}/{sorted(kw.items())}/{metric}"
                try:
                    rp = RecurrencePlot(data[row].copy(), metric=metric,
                                        silence_level=2, **kw)
                except Exception as e:  # noqa
                    put(tag, "EXC:" + type(e).__name__)
                    continue
                for min_dist in (7, 1, 0, 4):
                    attempt(f"{tag}/{min_dist}", lambda: rp.twins(min_dist))
                    attempt(f"{tag}/{min_dist}/again",
                            lambda: rp.twins(min_dist))
                attempt(f"{tag}/default", rp.twins)
                put(f"{tag}/Rm", rp.recurrence_matrix())

rng = np.random.RandomState(11)
x = rng.randint(0, 3, size=14)
Rm = (x[:, None] == x[None, :]).astype(LAG)
nR = Rm.sum(axis=0).astype(NODE)
for min_dist in (2, 0, -1, -4, -30, 50):
    tw = []
    attempt(f"R/err/{min_dist}", lambda: _twins_r(min_dist, 14, Rm, nR, tw))
    put(f"R/err/{min_dist}/tw", tw)
for n in (0, 1, 10, 15):
    tw = []
    attempt(f"R/size/{n}", lambda: _twins_r(2, n, Rm, nR, tw))
    put(f"R/size/{n}/tw", tw)
tw = [[1], [2]]
attempt("R/prepop", lambda: _twins_r(2, 14, Rm, nR, tw))
put("R/prepop/tw", tw)
attempt("R/none", lambda: _twins_r(2, 14, Rm, nR, None))
attempt("R/short_nR", lambda: _twins_r(2, 14, Rm, nR[:6].copy(), []))
put("R/Rm", Rm)
put("R/nR", nR)

print(H.hexdigest())
