"""Equivalence digest for property C14 (visibility graphs).

Run as:  PYTHONPATH=<worktree>/src /venv/bin/python equiv.py
Prints one sha256 digest over all results (arrays at full precision, dtypes,
shapes, exception types and messages).
"""
import hashlib
import io
import contextlib

import warnings

import numpy as np

warnings.simplefilter("ignore")

from pyunicorn.timeseries import VisibilityGraph
from pyunicorn.timeseries._ext.numerics import (
    _visibility_relations_missingvalues,
    _visibility_relations_no_missingvalues,
    _visibility_relations_horizontal,
    _retarded_local_clustering, _advanced_local_clustering)

H = hashlib.sha256()
COUNT = [0, 0]


def put(tag, obj):
    H.update(tag.encode())
    if isinstance(obj, np.ndarray):
        H.update(str(obj.dtype).encode())
        H.update(str(obj.shape).encode())
        H.update(np.ascontiguousarray(obj).tobytes())
    else:
        H.update(repr(obj).encode())
    COUNT[0] += 1


def attempt(tag, fn, record=True):
    """Record result or (exception type, message) of fn()."""
    out = io.StringIO()
    try:
        with contextlib.redirect_stdout(out):
            with np.errstate(all="ignore"):
                res = fn()
    except Exception as exc:  # pylint: disable=broad-except
        put(tag + ":exc", (type(exc).__name__, str(exc)))
        COUNT[1] += 1
        res = None
    else:
        if not record:
            put(tag, "ok")
        elif isinstance(res, tuple):
            for n, r in enumerate(res):
                put(f"{tag}:{n}", r)
        else:
            put(tag, res)
    put(tag + ":stdout", out.getvalue())
    return res


MEASURES = ["retarded_degree", "advanced_degree", "degree",
            "retarded_local_clustering", "advanced_local_clustering",
            "retarded_closeness", "advanced_closeness",
            "boundary_corrected_degree", "boundary_corrected_closeness"]


def exercise_graph(tag, ts, **kwargs):
    vg = attempt(tag + ":init", lambda: VisibilityGraph(ts, **kwargs),
                 record=False)
    if vg is None:
        return
    put(tag + ":adj", vg.adjacency)
    put(tag + ":N", (vg.N, vg.n_links, vg.directed, vg.missing_values,
                     vg.silence_level))
    put(tag + ":ts", vg.time_series)
    put(tag + ":t", vg.timings)
    put(tag + ":attrs", sorted(k for k in vg.__dict__))
    if vg.missing_values:
        put(tag + ":mvi", vg.missing_value_indices)
    put(tag + ":str", str(vg))
    for m in MEASURES:
        attempt(f"{tag}:{m}", getattr(vg, m))
        # second call (no stale cache / state change)
        attempt(f"{tag}:{m}:again", getattr(vg, m))
    attempt(tag + ":vis", lambda: (vg.visibility(0, vg.N - 1),
                                   vg.visibility_single(vg.N // 2)))
    attempt(tag + ":rel", vg.visibility_relations)
    attempt(tag + ":relh", vg.visibility_relations_horizontal)
    put(tag + ":attrs2", sorted(k for k in vg.__dict__))


def series(rng, kind, n):
    if kind == "normal":
        return rng.standard_normal(n)
    if kind == "ties":
        return rng.integers(0, 4, n).astype(float)
    if kind == "mono":
        return np.arange(n, dtype=float) * 0.5 - 3
    if kind == "const":
        return np.full(n, 2.5)
    if kind == "convex":
        return (np.arange(n, dtype=float) - n / 2.) ** 2
    if kind == "concave":
        return -(np.arange(n, dtype=float) - n / 2.) ** 2
    if kind == "nan":
        x = rng.standard_normal(n)
        x[rng.random(n) < 0.25] = np.nan
        return x
    if kind == "inf":
        x = rng.standard_normal(n)
        if n:
            x[rng.integers(0, n)] = np.inf
            x[rng.integers(0, n)] = -np.inf
        return x
    if kind == "big":
        return rng.standard_normal(n) * 1e30
    if kind == "int":
        return rng.integers(-5, 5, n)
    raise ValueError(kind)


def timings(rng, kind, n):
    if kind == "none":
        return None
    if kind == "inc":
        return np.cumsum(rng.random(n) + 0.01)
    if kind == "affine":
        return 3.0 * np.arange(n) + 7.0
    if kind == "dup":
        t = np.arange(n, dtype=float)
        if n > 3:
            t[3] = t[1]
        return t
    if kind == "dec":
        return -np.cumsum(rng.random(n) + 0.01)
    if kind == "short":
        return np.arange(max(n - 2, 0), dtype=float)
    if kind == "nan":
        t = np.arange(n, dtype=float)
        if n > 2:
            t[2] = np.nan
        return t
    raise ValueError(kind)


def part_graphs():
    rng = np.random.default_rng(20140914)
    kinds = ["normal", "ties", "mono", "const", "convex", "concave", "nan",
             "inf", "big", "int"]
    tkinds = ["none", "inc", "affine", "dup", "dec", "short", "nan"]
    for n in [0, 1, 2, 3, 4, 5, 8, 17, 40]:
        for kind in kinds:
            x = series(rng, kind, n)
            for tk in tkinds:
                if tk not in ("none", "inc") and kind not in (
                        "normal", "ties", "nan"):
                    continue
                t = timings(rng, tk, n)
                for mv in (False, True):
                    for hor in (False, True):
                        if hor and tk not in ("none", "short"):
                            continue
                        tag = f"g:{n}:{kind}:{tk}:{mv}:{hor}"
                        exercise_graph(tag, x, timings=t, missing_values=mv,
                                       horizontal=hor, silence_level=2)
    # verbosity and list / 2D inputs
    x = series(rng, "normal", 12)
    exercise_graph("g:verbose", x, silence_level=0)
    exercise_graph("g:verbose:h", x, horizontal=True, silence_level=1)
    exercise_graph("g:verbose:mv", x, missing_values=True, silence_level=0)
    exercise_graph("g:list", list(x), silence_level=2)
    exercise_graph("g:2d", x.reshape(3, 4), silence_level=2)
    exercise_graph("g:f32", x.astype(np.float32), silence_level=2)
    exercise_graph("g:cplx", x.astype(complex), silence_level=2)
    exercise_graph("g:strided", np.repeat(x, 2)[::2], silence_level=2)
    # state changed after construction
    vg = VisibilityGraph(x, silence_level=2)
    vg.adjacency = (np.random.default_rng(5).random((7, 7)) < 0.5).astype(int)
    for m in MEASURES[:5]:
        attempt(f"g:setadj:{m}", getattr(vg, m))
    vg = VisibilityGraph(x, silence_level=2)
    vg.time_series = vg.time_series[:6]
    attempt("g:shorter:rel", vg.visibility_relations)
    attempt("g:shorter:relh", vg.visibility_relations_horizontal)
    vg.missing_values = True
    attempt("g:nomvi:rel", vg.visibility_relations)
    vg.missing_value_indices = np.zeros(3, dtype=bool)
    attempt("g:shortmvi:rel", vg.visibility_relations)
    vg.silence_level = 0
    attempt("g:loud:rel", vg.visibility_relations)
    attempt("g:loud:relh", vg.visibility_relations_horizontal)


def part_kernels():
    rng = np.random.default_rng(42)
    f32 = np.float32
    for n in [0, 1, 2, 3, 6, 15]:
        for kind in ["normal", "ties", "nan", "inf", "convex"]:
            x = series(rng, kind, n).astype(f32)
            t = np.cumsum(rng.random(n) + 0.01).astype(f32)
            mv = np.isnan(x)
            for N in sorted({0, 1, 2, max(n - 1, 0), n, n + 1, n + 3, -2}):
                for fill in (0, 3):
                    for shape in ((n, n), (n + 4, n + 4), (max(n - 1, 0), n),
                                  (n, max(n - 1, 0))):
                        tag = f"k:{n}:{kind}:{N}:{fill}:{shape}"
                        A = np.full(shape, fill, dtype=np.int8)
                        attempt(tag + ":nomv", lambda: (
                            _visibility_relations_no_missingvalues(
                                x, t, N, A), A)[1])
                        put(tag + ":nomv:A", A)
                        A = np.full(shape, fill, dtype=np.int8)
                        attempt(tag + ":mv", lambda: (
                            _visibility_relations_missingvalues(
                                x, t, N, A, mv), A)[1])
                        put(tag + ":mv:A", A)
                        A = np.full(shape, fill, dtype=np.int8)
                        attempt(tag + ":mvshort", lambda: (
                            _visibility_relations_missingvalues(
                                x, t, N, A, mv[:max(n - 1, 0)]), A)[1])
                        put(tag + ":mvshort:A", A)
                        A = np.full(shape, fill, dtype=np.int8)
                        attempt(tag + ":tshort", lambda: (
                            _visibility_relations_no_missingvalues(
                                x, t[:max(n - 1, 0)], N, A), A)[1])
                        put(tag + ":tshort:A", A)
                        A = np.full(shape, fill, dtype=np.int8)
                        attempt(tag + ":hor", lambda: (
                            _visibility_relations_horizontal(x, N, A), A)[1])
                        put(tag + ":hor:A", A)
    # strided inputs, Fortran-ordered / transposed A, wrong types, None
    x = rng.standard_normal(20).astype(f32)
    t = np.cumsum(rng.random(20) + 0.01).astype(f32)
    mv = rng.random(10) < 0.3
    for name, A in [("F", np.zeros((10, 10), dtype=np.int8, order="F")),
                    ("T", np.zeros((12, 10), dtype=np.int8).T[:, :10]),
                    ("S", np.zeros((20, 20), dtype=np.int8)[::2, ::2])]:
        attempt("k:strided:" + name, lambda: (
            _visibility_relations_no_missingvalues(x[::2], t[::2], 10, A),
            A)[1])
        A[...] = 0
        attempt("k:strided:mv" + name, lambda: (
            _visibility_relations_missingvalues(x[::2], t[::2], 10, A, mv),
            A)[1])
        A[...] = 0
        attempt("k:strided:h" + name, lambda: (
            _visibility_relations_horizontal(x[::-2], 10, A), A)[1])
    A = np.zeros((10, 10), dtype=np.int8)
    for name, args in [
            ("xNone", (None, t[:10], 10, A)),
            ("tNone", (x[:10], None, 10, A)),
            ("ANone", (x[:10], t[:10], 10, None)),
            ("x64", (x[:10].astype(float), t[:10], 10, A)),
            ("Aint", (x[:10], t[:10], 10, A.astype(int))),
            ("Nfloat", (x[:10], t[:10], 10.5, A)),
            ("few", (x[:10], t[:10], 10))]:
        attempt("k:bad:" + name,
                lambda: _visibility_relations_no_missingvalues(*args))
        attempt("k:badmv:" + name,
                lambda: _visibility_relations_missingvalues(
                    *args, np.zeros(10, dtype=bool)))
        attempt("k:badmvN:" + name,
                lambda: _visibility_relations_missingvalues(*args, None))
        attempt("k:badh:" + name,
                lambda: _visibility_relations_horizontal(
                    *(args[:1] + args[2:])))
    put("k:bad:A", A)


def part_clustering():
    rng = np.random.default_rng(7)
    for n in [0, 1, 2, 3, 4, 7, 13]:
        for dens in (0.3, 0.7, 1.0):
            for sym in (True, False):
                A = (rng.random((n, n)) < dens).astype(np.int8)
                if sym:
                    A = np.triu(A, 1)
                    A = A + A.T
                else:
                    A[rng.random((n, n)) < 0.1] = 2
                for nk in ("deg", "rand", "ones"):
                    if nk == "deg":
                        d = np.array([A[i, :i].sum() for i in range(n)],
                                     dtype=float)
                        norm = d * (d - 1) / 2.
                        d = np.array([A[i, i:].sum() for i in range(n)],
                                     dtype=float)
                        norma = d * (d - 1) / 2.
                    elif nk == "rand":
                        norm = rng.integers(-1, 3, n).astype(float)
                        if n > 2:
                            norm[2] = np.nan
                        if n > 3:
                            norm[3] = -0.0
                        norma = norm[::-1].copy()
                    else:
                        norm = np.ones(n)
                        norma = np.ones(n)
                    for N in sorted({0, 1, 2, 3, max(n - 1, 0), n, n + 1,
                                     n + 2, -1}):
                        tag = f"c:{n}:{dens}:{sym}:{nk}:{N}"
                        out = np.full(n, -7.5)
                        attempt(tag + ":ret", lambda: (
                            _retarded_local_clustering(N, A, norm, out),
                            out)[1])
                        put(tag + ":ret:out", out)
                        out = np.full(n, -7.5)
                        attempt(tag + ":adv", lambda: (
                            _advanced_local_clustering(N, A, norma, out),
                            out)[1])
                        put(tag + ":adv:out", out)
                        out = np.full(max(n - 1, 0), -7.5)
                        attempt(tag + ":ret:shortout", lambda: (
                            _retarded_local_clustering(N, A, norm, out),
                            out)[1])
                        put(tag + ":ret:shortout:out", out)
                        out = np.full(max(n - 1, 0), -7.5)
                        attempt(tag + ":adv:shortout", lambda: (
                            _advanced_local_clustering(N, A, norma, out),
                            out)[1])
                        put(tag + ":adv:shortout:out", out)
                        out = np.full(n, -7.5)
                        attempt(tag + ":ret:shortnorm", lambda: (
                            _retarded_local_clustering(
                                N, A, norm[:max(n - 2, 0)], out), out)[1])
                        put(tag + ":ret:shortnorm:out", out)
                        out = np.full(n, -7.5)
                        attempt(tag + ":adv:shortnorm", lambda: (
                            _advanced_local_clustering(
                                N, A, norma[:max(n - 2, 0)], out), out)[1])
                        put(tag + ":adv:shortnorm:out", out)
                        # rectangular / strided adjacency
                        for nm, B in (("rows", A[:max(n - 1, 0)]),
                                      ("cols", A[:, :max(n - 1, 0)]),
                                      ("T", A.T),
                                      ("one", A[:1, :1])):
                            out = np.full(n, -7.5)
                            attempt(f"{tag}:ret:{nm}", lambda: (
                                _retarded_local_clustering(N, B, norm, out),
                                out)[1])
                            put(f"{tag}:ret:{nm}:out", out)
                            out = np.full(n, -7.5)
                            attempt(f"{tag}:adv:{nm}", lambda: (
                                _advanced_local_clustering(
                                    N, B, norma, out), out)[1])
                            put(f"{tag}:adv:{nm}:out", out)
    A = np.ones((4, 4), dtype=np.int8)
    nrm = np.ones(4)
    out = np.zeros(4)
    for name, args in [("ANone", (4, None, nrm, out)),
                       ("nNone", (4, A, None, out)),
                       ("oNone", (4, A, nrm, None)),
                       ("Aint", (4, A.astype(int), nrm, out)),
                       ("n32", (4, A, nrm.astype(np.float32), out)),
                       ("few", (4, A, nrm))]:
        attempt("c:bad:ret:" + name,
                lambda: _retarded_local_clustering(*args))
        attempt("c:bad:adv:" + name,
                lambda: _advanced_local_clustering(*args))
    put("c:bad:out", out)


if __name__ == "__main__":
    part_graphs()
    part_kernels()
    part_clustering()
    print(f"records={COUNT[0]} exceptions={COUNT[1]}")
    print("digest", H.hexdigest())
