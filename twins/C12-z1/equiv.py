"""Equivalence digest for the angular / euclidean distance kernels."""
import hashlib
import numpy as np

from pyunicorn.core._ext.numerics import (
    _calculate_angular_distance, _calculate_euclidean_distance)
from pyunicorn.core.grid import Grid
from pyunicorn.core.geo_grid import GeoGrid

H = hashlib.sha256()


def feed(tag, obj):
    H.update(tag.encode())
    if isinstance(obj, np.ndarray):
        H.update(str(obj.dtype).encode() + str(obj.shape).encode())
        H.update(np.ascontiguousarray(obj).tobytes())
    else:
        H.update(repr(obj).encode())


def trig(rng, n, special=False):
    lat = rng.uniform(-90, 90, n)
    lon = rng.uniform(-180, 360, n)
    if special and n >= 6:
        lat[1], lon[1] = lat[0], lon[0]            # coincident
        lat[2], lon[2] = -lat[0], lon[0] + 180.    # antipodal
        lat[3], lon[3] = 90., 17.                  # pole
        lat[4], lon[4] = -90., -45.
        lat[5], lon[5] = 90., 200.
    lat = lat.astype(np.float32) * np.pi / 180
    lon = lon.astype(np.float32) * np.pi / 180
    return [f(a).astype(np.float32)
            for f, a in ((np.cos, lat), (np.sin, lat),
                         (np.cos, lon), (np.sin, lon))]


def run_ang(tag, args, out, n):
    try:
        res = _calculate_angular_distance(*args, out, n)
        feed(tag + ":ret", res)
    except Exception as e:  # pylint: disable=broad-except
        feed(tag + ":exc", type(e).__name__)
    feed(tag + ":out", out)


def run_euc(tag, x, out, ndim, n):
    try:
        res = _calculate_euclidean_distance(x, out, ndim, n)
        feed(tag + ":ret", res)
    except Exception as e:  # pylint: disable=broad-except
        feed(tag + ":exc", type(e).__name__)
    feed(tag + ":out", out)


rng = np.random.default_rng(20240712)

# --- angular kernel, consistent sizes
for n in (0, 1, 2, 3, 6, 17, 64, 201):
    a = trig(rng, n, special=True)
    run_ang(f"ang{n}", a, np.zeros((n, n), dtype=np.float32), n)
    # pre-filled output (kernel must overwrite the whole matrix)
    run_ang(f"angfill{n}", a, np.full((n, n), 7.5, dtype=np.float32), n)

# --- angular kernel with values that need clamping / non-finite values
a = [np.array(v, dtype=np.float32) for v in (
    [1.5, -1.5, 1.0, np.nan, np.inf, 0.0, 1e-30],
    [1.5, 1.5, 0.0, 0.3, 1.0, -0.0, 1e-30],
    [1.0, -1.0, 2.0, 1.0, 1.0, 1.0, 1e-30],
    [0.0, 1.0, 2.0, 0.5, -np.inf, 0.0, 1e-30])]
run_ang("angclamp", a, np.zeros((7, 7), dtype=np.float32), 7)

# --- angular kernel, N smaller than arrays, zero, negative, too large
a = trig(rng, 9)
for n in (5, 0, -1, -2, -7, 9):
    run_ang(f"angpart{n}", a, np.full((9, 9), -3.0, dtype=np.float32), n)
for n in (10, 12):
    run_ang(f"angover{n}", a, np.full((9, 9), -3.0, dtype=np.float32), n)
    run_ang(f"angoverbig{n}", a, np.full((14, 14), -3.0, dtype=np.float32), n)
b = [v.copy() for v in a]
b[2] = b[2][:4].copy()                      # one short operand
run_ang("angshort", b, np.full((9, 9), -3.0, dtype=np.float32), 9)
run_ang("angsmallout", a, np.full((4, 9), -3.0, dtype=np.float32), 9)
run_ang("angsmallout2", a, np.full((9, 4), -3.0, dtype=np.float32), 9)

# --- euclidean kernel
for ndim in (0, 1, 2, 3, 5):
    for n in (0, 1, 2, 7, 40, 133):
        x = (rng.normal(size=(ndim, n)) * 10 ** rng.uniform(-3, 3))\
            .astype(np.float32)
        if n >= 2 and ndim:
            x[:, 1] = x[:, 0]
        run_euc(f"euc{ndim}_{n}", x, np.zeros((n, n), dtype=np.float32),
                ndim, n)
        run_euc(f"eucfill{ndim}_{n}", x,
                np.full((n, n), 2.25, dtype=np.float32), ndim, n)
x = np.array([[0., 1e20, -1e20, np.inf, np.nan, 3e38, -3e38, 1e-30],
              [0., 1e20, 1e20, 1., 0., 3e38, 3e38, -1e-30]], dtype=np.float32)
run_euc("eucspecial", x, np.zeros((8, 8), dtype=np.float32), 2, 8)
x = rng.normal(size=(3, 8)).astype(np.float32)
for ndim, n in ((3, 5), (2, 8), (0, 8), (-1, 8), (3, 0), (3, -1), (3, -2),
                (3, -5), (4, 8), (3, 9), (3, 11), (5, 11)):
    run_euc(f"eucpart{ndim}_{n}", x, np.full((8, 8), -3.0, dtype=np.float32),
            ndim, n)
    run_euc(f"eucpartbig{ndim}_{n}", x,
            np.full((12, 12), -3.0, dtype=np.float32), ndim, n)
run_euc("eucsmallout", x, np.full((3, 8), -3.0, dtype=np.float32), 3, 8)
run_euc("eucsmallout2", x, np.full((8, 3), -3.0, dtype=np.float32), 3, 8)

# --- through the public API
for n in (1, 2, 6, 50, 150):
    lat = rng.uniform(-90, 90, n)
    lon = rng.uniform(-180, 180, n)
    if n >= 6:
        lat[1], lon[1] = lat[0], lon[0]
        lat[2], lon[2] = -lat[0], lon[0] - 180.
    g = GeoGrid(np.arange(3.), lat, lon, silence_level=2)
    d = g.angular_distance()
    feed(f"api_ang{n}", d)
    feed(f"api_ang_sym{n}", bool((d == d.T).all()))
    feed(f"api_dist{n}", g.distance())
    e = g.euclidean_distance()
    feed(f"api_geo_euc{n}", e)
    for ndim in (1, 2, 3, 4):
        gg = Grid(np.arange(4.), rng.normal(size=(ndim, n)) * 50,
                  silence_level=2)
        e = gg.euclidean_distance()
        feed(f"api_euc{ndim}_{n}", e)
        feed(f"api_euc_sym{ndim}_{n}", bool((e == e.T).all()))
        feed(f"api_euc_diag{ndim}_{n}", bool((np.diag(e) == 0).all()))
feed("small_geo", GeoGrid.SmallTestGrid().angular_distance())
feed("small", Grid.SmallTestGrid().euclidean_distance())

print(H.hexdigest())
