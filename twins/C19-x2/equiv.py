"""
Equivalence digest for property C19 (distributed computation returns the
serial result).  Run as

    PYTHONPATH=<worktree>/src /venv/bin/python equiv.py

Prints one sha256 digest; it must be identical on the pristine and on the
refactored tree.
"""
import contextlib
import hashlib
import io
import sys
import types

import numpy as np


H = hashlib.sha256()


def feed(tag, obj):
    """Add an object to the digest in a deterministic way."""
    H.update(repr(tag).encode())
    if isinstance(obj, np.ndarray):
        H.update(str(obj.dtype).encode())
        H.update(repr(obj.shape).encode())
        H.update(np.ascontiguousarray(obj).tobytes())
    elif isinstance(obj, (tuple, list)):
        H.update(("seq%d" % len(obj)).encode())
        for k, o in enumerate(obj):
            feed(k, o)
    else:
        H.update(repr(obj).encode())


def attempt(tag, fun, *args, **kwargs):
    """Call fun, feed either the result or the exception type."""
    try:
        res = fun(*args, **kwargs)
    except BaseException as e:  # pylint: disable=broad-except
        feed(tag, "EXC:" + type(e).__name__)
        if "-v" in sys.argv:
            sys.__stderr__.write("EXC %r %s %s\n" % (tag, type(e).__name__, e))
        return None
    feed(tag, res)
    return res


def clean(text):
    """Drop timing lines from captured output."""
    return "\n".join(line for line in text.splitlines()
                     if "took" not in line)


def random_adjacency(rng, N, p, isolated=()):
    A = (rng.random((N, N)) < p).astype(int)
    A = np.triu(A, 1)
    A = A + A.T
    for i in isolated:
        A[i, :] = 0
        A[:, i] = 0
    return A


class FakeMPI:
    """
    Synchronous stand-in for pyunicorn.utils.mpi with available == True.
    Follows the submit_call / get_result protocol and logs every call.
    """

    def __init__(self, size):
        self.available = True
        self.size = size
        self.log = []
        self.results = {}
        self.order = []

    def submit_call(self, name_to_call, args=(), kwargs={},
                    module="__main__", time_est=1, id=None, slave=None):
        assert id not in self.results
        fun = eval(name_to_call, sys.modules[module].__dict__)
        self.log.append(("submit", name_to_call, module, repr(id),
                         type(id).__name__, repr(time_est),
                         type(time_est).__name__, repr(slave),
                         sorted(kwargs)))
        feed("submit-args", list(args))
        self.results[id] = fun(*args, **kwargs)
        self.order.append(id)
        return id

    def get_result(self, id):
        self.log.append(("get", repr(id), type(id).__name__))
        self.order.remove(id)
        return self.results.pop(id)


def networks():
    from pyunicorn.core.network import Network
    rng = np.random.default_rng(20240519)
    nets = [("small", dict(), None)]
    specs = [(7, 0.5, ()), (12, 0.3, (3,)), (23, 0.2, (0, 11)),
             (31, 0.15, ()), (44, 0.1, (5,))]
    for N, p, iso in specs:
        A = random_adjacency(rng, N, p, iso)
        w = rng.random(N) + 0.25
        nets.append(("er%d" % N, dict(adjacency=A, node_weights=w), None))
    out = []
    for name, kw, _ in nets:
        for sl in (0, 2):
            if name == "small":
                net = Network.SmallTestNetwork()
                net.silence_level = sl
            else:
                net = Network(directed=False, silence_level=sl, **kw)
            out.append((name + "/sl%d" % sl, net))
    return out


def measures(net):
    yield "newman", net.newman_betweenness, {}
    yield "nsi_newman", net.nsi_newman_betweenness, {}
    yield "nsi_newman_ends", net.nsi_newman_betweenness, \
        dict(add_local_ends=True)
    yield "nsi_arenas", net.nsi_arenas_betweenness, {}
    yield "nsi_arenas_incl", net.nsi_arenas_betweenness, \
        dict(exclude_neighbors=False)
    yield "nsi_arenas_twin", net.nsi_arenas_betweenness, \
        dict(stopping_mode="twinness")
    yield "nsi_betw", net.nsi_betweenness, {}
    yield "nsi_betw_sub", net.nsi_betweenness, \
        dict(sources=[0, 2, 3], targets=[1, 4, 5, 0])


def run_measures(tag, fake_size=None):
    import pyunicorn.core.network as netmod
    real_mpi = netmod.mpi
    for name, net in networks():
        for mname, fun, kw in measures(net):
            fake = None
            if fake_size is not None:
                fake = FakeMPI(fake_size)
                netmod.mpi = fake
            buf = io.StringIO()
            try:
                with contextlib.redirect_stdout(buf):
                    attempt((tag, name, mname), fun, **kw)
            finally:
                netmod.mpi = real_mpi
            feed((tag, name, mname, "stdout"), clean(buf.getvalue()))
            if fake is not None:
                feed((tag, name, mname, "log"), fake.log)
                feed((tag, name, mname, "left"),
                     (sorted(map(repr, fake.results)), fake.order))
            # cached measures must be recomputed next time
            if hasattr(net, "cache_clear"):
                pass


def kernels():
    from pyunicorn.core._ext.types import \
        to_cy, ADJ, DFIELD, DWEIGHT, MASK
    from pyunicorn.core._ext.numerics import \
        _mpi_newman_betweenness, _mpi_nsi_newman_betweenness
    from pyunicorn.core.network import Network
    import scipy.sparse as sp
    rng = np.random.default_rng(777)
    for N in (2, 5, 9, 17):
        A = random_adjacency(rng, N, 0.5)
        if A.sum() == 0:
            A[0, 1] = A[1, 0] = 1
        V = rng.standard_normal((N, N))
        w = rng.random(N) + 0.5
        nae = (1 - A - np.identity(N)).astype(MASK)
        cuts = [(0, N), (0, 0), (N, N), (0, 1), (1, N), (N // 2, N),
                (N // 3, 2 * N // 3), (N - 1, N), (2, 1), (0, N + 1),
                (-1, 1)]
        for (a, b) in cuts:
            lo, hi = max(a, 0), max(b, 0)
            attempt(("k-newman", N, a, b), _mpi_newman_betweenness,
                    to_cy(A[lo:hi, :], ADJ), to_cy(V, DFIELD), N, a, b)
            attempt(("k-nsi-newman", N, a, b), _mpi_nsi_newman_betweenness,
                    to_cy(A[lo:hi, :], ADJ), to_cy(V, DFIELD), N,
                    to_cy(w, DWEIGHT), nae[lo:hi, :], a, b)
        # non-contiguous inputs
        attempt(("k-newman-nc", N), _mpi_newman_betweenness,
                to_cy(A, ADJ).T, np.asfortranarray(to_cy(V, DFIELD)),
                N, 0, N)
        attempt(("k-nsi-newman-nc", N), _mpi_nsi_newman_betweenness,
                to_cy(A, ADJ).T, np.asfortranarray(to_cy(V, DFIELD)), N,
                to_cy(w, DWEIGHT), np.asfortranarray(nae), 0, N)
        # wrong types
        attempt(("k-newman-bad", N), _mpi_newman_betweenness,
                A.astype(float), V, N, 0, N)
        attempt(("k-newman-short", N), _mpi_newman_betweenness,
                to_cy(A, ADJ), to_cy(V[:-1, :-1].copy(), DFIELD), N, 0, N)

        # arenas chunk kernel
        if N < 3:
            continue
        net = Network(adjacency=A, directed=False, node_weights=w,
                      silence_level=2)
        if len(net.graph.connected_components()) != 1:
            continue
        Aplus = (A + np.identity(N)).astype(int)
        sp_P = (net.sp_nsi_diag_k_inv() * net.sp_Aplus()
                * net.sp_diag_w()).todok()
        twin = net.nsi_twinness()
        for (a, b) in [(0, N), (0, 2), (2, N), (1, 1), (N - 1, N)]:
            for excl in (True, False):
                for mode, tw in (("neighbors", None),
                                 ("twinness", twin[a:b, :])):
                    before = sp_P.copy()
                    attempt(("k-arenas", N, a, b, excl, mode),
                            Network._mpi_nsi_arenas_betweenness,
                            N, sp_P, Aplus[a:b, :], w, w[a:b], a, b,
                            excl, mode, tw)
                    feed("sp_P-untouched",
                         (abs(before - sp_P)).sum() == 0)
    del sp


class FakeComm:
    """Synchronous MPI communicator: executes calls at send time."""

    def __init__(self):
        self.sent = []
        self.boxes = {}
        self.n = {}

    def send(self, payload, dest=None):
        name_to_call, args, kwargs, module, time_est = payload
        self.sent.append((name_to_call, repr(args), repr(sorted(kwargs)),
                          module, repr(time_est), int(dest)))
        fun = eval(name_to_call, sys.modules[module].__dict__)
        self.n[dest] = self.n.get(dest, 0) + 1
        res = fun(*args, **kwargs)
        self.boxes.setdefault(dest, []).append(
            (res, {"n_processed": self.n[dest], "total_time": 1.5 * self.n[dest],
                   "this_time": 0.5, "time_over_est": 0.25, "id": None,
                   "rank": dest}))

    def recv(self, source=None):
        return self.boxes[source].pop(0)


def state(mpi):
    return (list(map(repr, mpi.queue)),
            sorted((repr(k), int(v)) for k, v in mpi.assigned.items()),
            [list(map(repr, q)) for q in mpi.slave_queue],
            [repr(float(x)) for x in mpi.total_time_est],
            [int(x) for x in mpi.n_processed],
            [(repr(s["id"]), int(s["rank"]), int(s["n_processed"]))
             for s in mpi.stats])


def protocol():
    """Exercise utils.mpi submit_call / get_result directly."""
    from pyunicorn.utils import mpi
    main = sys.modules["__main__"]
    main.triple = lambda x, y=0: 3 * x + y
    main.boom = lambda: 1 // 0

    for verbose in (False, True):
        np.random.seed(4242)
        mpi._verbose = verbose
        buf = io.StringIO()
        with contextlib.redirect_stdout(buf), contextlib.redirect_stderr(buf):
            # --- serial fallback -------------------------------------------
            mpi.available = False
            attempt("s1", mpi.submit_call, "triple", (2,), id="a")
            attempt("s2", mpi.submit_call, "triple", (3,), {"y": 1}, id=7,
                    time_est=4)
            attempt("s3", mpi.submit_call, "triple", (4,), id=(1, 2),
                    slave=5)
            attempt("s-dup", mpi.submit_call, "triple", (4,), id="a")
            attempt("s-name", mpi.submit_call, "no_such_function", (4,),
                    id="n")
            attempt("s-boom", mpi.submit_call, "boom", (), id="b")
            attempt("s-zero", mpi.submit_call, "triple", (1,), id="z",
                    time_est=0)
            attempt("s-mod", mpi.submit_call, "solve", (np.eye(2), np.ones(2)),
                    module="numpy.linalg", id="m")
            rid = attempt("s-rand", lambda: type(mpi.submit_call(
                "triple", (9,))).__name__)
            feed("state-s", state(mpi))
            attempt("g-7", mpi.get_result, 7)
            attempt("g-7-again", mpi.get_result, 7)
            attempt("g-next", mpi.get_next_result)
            attempt("g-t", mpi.get_result, (1, 2))
            attempt("g-missing", mpi.get_result, "nope")
            feed("state-s2", state(mpi))
            while mpi.queue:
                r = mpi.get_next_result()
                feed("drain", r if not isinstance(r, float) else "float")
            attempt("g-next-empty", mpi.get_next_result)
            feed("state-s3", state(mpi))
            feed("results-left", sorted(map(repr, (
                k for k in mpi.results if not isinstance(k, float)))))

            # --- distributed path with a fake communicator -----------------
            saved = (mpi.size, mpi.total_time_est, mpi.slave_queue,
                     mpi.n_processed, mpi.total_time)
            mpi.available = True
            mpi.comm = FakeComm()
            mpi.size = 4
            mpi.total_time_est = np.zeros(4)
            mpi.total_time_est[0] = np.inf
            mpi.slave_queue = [[] for _ in range(4)]
            mpi.n_processed = np.zeros(4).astype("int")
            mpi.total_time = np.zeros(4)
            try:
                for n in range(9):
                    attempt(("d-sub", n), mpi.submit_call, "triple", (n,),
                            id=n, time_est=1 + (n * 7) % 4)
                attempt("d-slave", mpi.submit_call, "triple", (10,),
                        id="fixed", slave=2)
                attempt("d-slave-bad", mpi.submit_call, "triple", (11,),
                        id="bad", slave=9)
                attempt("d-dup", mpi.submit_call, "triple", (1,), id=3)
                attempt("d-none", mpi.submit_call, "triple", (1,), id="tn",
                        time_est=None)
                feed("state-d", state(mpi))
                feed("sent", mpi.comm.sent)
                attempt("d-get-0", mpi.get_result, 0)
                # out of FIFO order for its slave
                last = mpi.slave_queue[1][-1] if mpi.slave_queue[1] else None
                attempt("d-get-late", mpi.get_result, last)
                attempt("d-get-missing", mpi.get_result, "nope")
                feed("state-d2", state(mpi))
                for _ in range(40):
                    if not mpi.queue:
                        break
                    attempt("d-next", mpi.get_next_result)
                feed("state-d3", state(mpi))
            finally:
                mpi.available = False
                (mpi.size, mpi.total_time_est, mpi.slave_queue,
                 mpi.n_processed, mpi.total_time) = saved
                del mpi.comm
                mpi.queue.clear()
                mpi.assigned.clear()
                del mpi.stats[:]
        feed(("protocol-out", verbose), clean(buf.getvalue()))
    mpi._verbose = False


def pool_split():
    """multiprocessing split of targets equals the serial result."""
    from pyunicorn.core.network import Network
    rng = np.random.default_rng(99)
    A = random_adjacency(rng, 15, 0.3)
    w = rng.random(15) + 0.5
    net = Network(adjacency=A, directed=False, node_weights=w,
                  silence_level=2)
    a = net.nsi_betweenness(parallelize=False)
    b = net.nsi_betweenness(parallelize=True)
    c = net.nsi_betweenness(parallelize=True, targets=[3, 1, 4],
                            sources=[0, 5, 9], nsi=False)
    feed("pool-serial", a)
    feed("pool-par-close", bool(np.allclose(a, b, rtol=1e-12, atol=1e-12)))
    feed("pool-par-sub", np.round(c, 9))


def main():
    kernels()
    run_measures("serial")
    for size in (2, 3, 6):
        run_measures("fake%d" % size, fake_size=size)
    protocol()
    pool_split()
    print(H.hexdigest())


if __name__ == "__main__":
    main()
