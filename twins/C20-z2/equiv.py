"""Digest of the while-loop kernels (visibility graphs, adaptive neighbourhood
size recurrence plot) on a spread of inputs."""
import hashlib

import numpy as np

from pyunicorn.timeseries._ext.numerics import (
    _visibility_relations_missingvalues,
    _visibility_relations_no_missingvalues,
    _visibility_relations_horizontal,
    _set_adaptive_neighborhood_size)
from pyunicorn.timeseries import VisibilityGraph, RecurrencePlot
from pyunicorn.core._ext.types import FIELD, MASK, NODE, LAG

h = hashlib.sha256()


def feed(tag, obj):
    h.update(tag.encode())
    if isinstance(obj, np.ndarray):
        h.update(str(obj.dtype).encode())
        h.update(str(obj.shape).encode())
        h.update(np.ascontiguousarray(obj).tobytes())
    else:
        h.update(repr(obj).encode())


def attempt(tag, fn, out):
    """Run a kernel that fills `out`; digest the exception type (if any) and
    the state of the output array afterwards (partial writes included)."""
    try:
        with np.errstate(all="ignore"):
            fn()
        feed(tag + ":ok", out)
    except Exception as e:  # noqa
        feed(tag + ":" + type(e).__name__, out)


rng = np.random.RandomState(2020)


def series(kind, N):
    if kind == "normal":
        return rng.standard_normal(N)
    if kind == "ties":
        return rng.randint(0, 3, size=N).astype(float)
    if kind == "const":
        return np.full(N, 1.5)
    if kind == "ramp":
        return np.arange(N, dtype=float)
    if kind == "convex":
        return (np.arange(N, dtype=float) - N / 2.) ** 2
    if kind == "concave":
        return -(np.arange(N, dtype=float) - N / 2.) ** 2
    if kind == "inf":
        x = rng.standard_normal(N)
        x[rng.rand(N) < 0.2] = np.inf
        x[rng.rand(N) < 0.1] = -np.inf
        return x
    raise ValueError(kind)


for N in (0, 1, 2, 3, 4, 5, 9, 30, 64):
    for kind in ("normal", "ties", "const", "ramp", "convex", "concave",
                 "inf"):
        x = series(kind, N).astype(FIELD)
        for tkind in ("regular", "irregular", "duplicates"):
            if tkind == "regular":
                t = np.arange(N, dtype=FIELD)
            elif tkind == "irregular":
                t = np.sort(rng.rand(N) * 10).astype(FIELD)
            else:
                t = np.sort(rng.randint(0, max(N // 2, 1), size=N)
                            ).astype(FIELD)
            tag = f"{N}-{kind}-{tkind}"

            A = np.zeros((N, N), dtype=MASK)
            attempt("nomv-" + tag,
                    lambda: _visibility_relations_no_missingvalues(
                        x, t, N, A), A)

            xm = x.copy()
            xm[rng.rand(N) < 0.25] = np.nan
            for mvtag, mv in (("bool", np.isnan(xm)),
                              ("none", np.zeros(N, dtype=bool)),
                              ("all", np.ones(N, dtype=bool))):
                A = np.zeros((N, N), dtype=MASK)
                attempt(f"mv-{mvtag}-" + tag,
                        lambda: _visibility_relations_missingvalues(
                            xm, t, N, A, mv), A)
            # NaNs without the missing value treatment
            A = np.zeros((N, N), dtype=MASK)
            attempt("nan-nomv-" + tag,
                    lambda: _visibility_relations_no_missingvalues(
                        xm, t, N, A), A)

        A = np.zeros((N, N), dtype=MASK)
        attempt(f"hor-{N}-{kind}",
                lambda: _visibility_relations_horizontal(x, N, A), A)
        xm = x.copy()
        xm[rng.rand(N) < 0.25] = np.nan
        A = np.zeros((N, N), dtype=MASK)
        attempt(f"hor-nan-{N}-{kind}",
                lambda: _visibility_relations_horizontal(xm, N, A), A)

# N that does not match the arrays (larger / smaller than the buffers)
x = rng.standard_normal(6).astype(FIELD)
t = np.arange(6, dtype=FIELD)
for N in (-3, 4, 7, 9):
    A = np.zeros((6, 6), dtype=MASK)
    attempt(f"mismatch-nomv-{N}",
            lambda: _visibility_relations_no_missingvalues(x, t, N, A), A)
    A = np.zeros((6, 6), dtype=MASK)
    attempt(f"mismatch-mv-{N}",
            lambda: _visibility_relations_missingvalues(
                x, t, N, A, np.zeros(6, dtype=bool)), A)
    A = np.zeros((6, 6), dtype=MASK)
    attempt(f"mismatch-hor-{N}",
            lambda: _visibility_relations_horizontal(x, N, A), A)
# short missing-value mask
A = np.zeros((6, 6), dtype=MASK)
attempt("shortmask",
        lambda: _visibility_relations_missingvalues(
            x, t, 6, A, np.zeros(3, dtype=bool)), A)

# through the public class
for N in (3, 10, 50):
    x = rng.standard_normal(N)
    for horizontal in (False, True):
        vg = VisibilityGraph(x, horizontal=horizontal, silence_level=2)
        feed(f"VG-{N}-{horizontal}", np.asarray(vg.adjacency))
    xm = x.copy()
    xm[rng.rand(N) < 0.2] = np.nan
    vg = VisibilityGraph(xm, timings=np.sort(rng.rand(N)),
                         missing_values=True, silence_level=2)
    feed(f"VG-mv-{N}", np.asarray(vg.adjacency))
    feed(f"VG-mv-ret-{N}", vg.retarded_local_clustering())
    feed(f"VG-mv-adv-{N}", vg.advanced_local_clustering())


# adaptive neighbourhood size kernel ----------------------------------------

def adaptive(tag, n_time, ans, dist, order=None):
    sorted_neighbors = dist.argsort(axis=1).astype(NODE)
    if order is None:
        order = np.arange(n_time, dtype=NODE)
    R = np.zeros((n_time, n_time), dtype=LAG)
    attempt(tag, lambda: _set_adaptive_neighborhood_size(
        n_time, ans, sorted_neighbors, order, R), R)


for n_time in (0, 1, 2, 3, 6, 15, 40):
    emb = rng.standard_normal((n_time, 2))
    dist = np.abs(emb[:, None, :] - emb[None, :, :]).sum(axis=2)
    for ans in (-1, 0, 1, 2, 3, n_time - 2, n_time - 1, n_time, n_time + 1,
                n_time + 5):
        adaptive(f"ans-{n_time}-{ans}", n_time, ans, dist)
        if n_time:
            adaptive(f"ans-perm-{n_time}-{ans}", n_time, ans, dist,
                     rng.permutation(n_time).astype(NODE))
    # ties in the distances
    dist_t = np.round(dist)
    for ans in (1, 2, n_time - 1):
        adaptive(f"ans-ties-{n_time}-{ans}", n_time, ans, dist_t)
# order entries outside the matrix
dist = rng.rand(5, 5)
adaptive("ans-badorder", 5, 2, dist, np.array([0, 1, 7, 2, 3], dtype=NODE))
adaptive("ans-shortorder", 5, 2, dist, np.array([0, 1], dtype=NODE))

for N in (12, 60):
    x = np.sin(np.arange(N) * 0.3) + 0.1 * rng.standard_normal(N)
    for metric in ("supremum", "euclidean", "manhattan"):
        for ans in (1, 3, 5):
            try:
                rp = RecurrencePlot(x, dim=2, tau=1, metric=metric,
                                    adaptive_neighborhood_size=ans,
                                    silence_level=2)
                feed(f"RP-{N}-{metric}-{ans}", np.asarray(rp.R))
            except Exception as e:  # noqa
                feed(f"RP-{N}-{metric}-{ans}", type(e).__name__)
    xm = x.copy()
    xm[[2, 7]] = np.nan
    try:
        rp = RecurrencePlot(xm, dim=2, tau=1, missing_values=True,
                            adaptive_neighborhood_size=3, silence_level=2)
        feed(f"RP-mv-{N}", np.asarray(rp.R))
    except Exception as e:  # noqa
        feed(f"RP-mv-{N}", type(e).__name__)

print(h.hexdigest())
