"""Behavioural digest of the resistive-network mechanism (property C18).

Run as:  PYTHONPATH=<worktree>/src /venv/bin/python equiv.py
Prints one sha256 digest that must be identical on the pristine and on the
refactored tree.
"""
import contextlib
import hashlib
import io
import warnings

import numpy as np

warnings.simplefilter("ignore")

from pyunicorn.core.resistive_network import ResNetwork  # noqa: E402
from pyunicorn.core._ext.numerics import (  # noqa: E402
    _vertex_current_flow_betweenness, _edge_current_flow_betweenness)

H = hashlib.sha256()
N_ITEMS = [0]


def feed(tag, obj):
    """Add a tagged, type-aware, full precision rendering of obj."""
    N_ITEMS[0] += 1
    H.update(tag.encode())
    H.update(b"|")
    if obj is None:
        H.update(b"None")
    elif isinstance(obj, np.ndarray) and obj.dtype == object:
        H.update(f"ndobj:{obj.shape}:{obj.tolist()!r}".encode())
    elif isinstance(obj, np.ndarray):
        H.update(f"nd:{obj.dtype.str}:{obj.shape}:".encode())
        H.update(np.ascontiguousarray(obj).tobytes())
    elif isinstance(obj, np.generic):
        H.update(f"ng:{type(obj).__name__}:".encode())
        H.update(obj.tobytes())
    elif isinstance(obj, (float, complex, int, bool, str)):
        H.update(f"py:{type(obj).__name__}:{obj!r}".encode())
    elif isinstance(obj, (list, tuple)):
        H.update(f"seq:{type(obj).__name__}:{len(obj)}".encode())
        for k, o in enumerate(obj):
            feed(f"{tag}[{k}]", o)
    else:
        H.update(f"obj:{type(obj).__name__}".encode())
    H.update(b"\n")


def call(tag, fun, *args, **kwargs):
    """Call fun, record result or exception type/message and stdout."""
    out = io.StringIO()
    try:
        with contextlib.redirect_stdout(out):
            res = fun(*args, **kwargs)
        feed(tag, res)
    except Exception as exc:  # pylint: disable=broad-except
        res = None
        feed(tag + ":EXC", f"{type(exc).__name__}:{exc}")
    feed(tag + ":stdout", out.getvalue())
    return res


def state(tag, net):
    """Record the observable object state of the mechanism."""
    feed(tag + ".flag", bool(net.flagComplex))
    feed(tag + ".flagtype", type(net.flagComplex).__name__)
    feed(tag + ".res", np.asarray(net.resistances))
    for name in ("sparse_Adm", "sparse_R"):
        mat = getattr(net, name)
        if mat is None:
            feed(f"{tag}.{name}", None)
        else:
            feed(f"{tag}.{name}.fmt", f"{mat.format}:{mat.dtype.str}")
            feed(f"{tag}.{name}.arr", mat.toarray())
    er = net._effective_resistances  # pylint: disable=protected-access
    feed(tag + ".er_cache", er)
    g = net.adm_graph
    if g is None:
        feed(tag + ".adm_graph", None)
    else:
        feed(tag + ".adm_graph", [g.vcount(), g.ecount(),
                                  bool(g.is_directed())])
        feed(tag + ".adm_graph.edges",
             np.array(g.get_edgelist(), dtype=np.int64).reshape(-1, 2))
    feed(tag + ".graph", [net.graph.vcount(), net.graph.ecount()])


def measures(tag, net, full=True):
    n = net.N
    call(tag + ".adm", net.get_admittance)
    call(tag + ".lap", net.admittance_lapacian)
    call(tag + ".R", net.get_R)
    call(tag + ".ad", net.admittive_degree)
    call(tag + ".anad", net.average_neighbors_admittive_degree)
    if full:
        call(tag + ".lac", net.local_admittive_clustering)
        call(tag + ".gac", net.global_admittive_clustering)
    for a in range(n):
        for b in range(n):
            call(f"{tag}.er[{a},{b}]", net.effective_resistance, a, b)
    # diameter before average: must re-compute and print
    call(tag + ".diam0", net.diameter_effective_resistance)
    state(tag + ".s0", net)
    call(tag + ".aer", net.average_effective_resistance)
    state(tag + ".s1", net)
    call(tag + ".diam1", net.diameter_effective_resistance)
    for a in range(n):
        call(f"{tag}.ercc[{a}]",
             net.effective_resistance_closeness_centrality, a)
    for i in range(-2, n + 2):
        call(f"{tag}.vcfb[{i}]", net.vertex_current_flow_betweenness, i)
    call(tag + ".ecfb", net.edge_current_flow_betweenness)
    call(tag + ".str", net.__str__)
    state(tag + ".s2", net)


def random_network(seed, n, kind):
    """A connected random resistor network (ring plus random chords)."""
    rng = np.random.RandomState(seed)
    adj = np.zeros((n, n), dtype=np.int8)
    for i in range(n):
        j = (i + 1) % n
        if i != j:
            adj[i, j] = adj[j, i] = 1
    extra = rng.rand(n, n) < 0.3
    extra = np.triu(extra, 1)
    adj[extra | extra.T] = 1
    np.fill_diagonal(adj, 0)
    if kind == "int":
        vals = rng.randint(1, 12, size=(n, n))
        vals = np.triu(vals, 1)
        res = (vals + vals.T) * adj
    elif kind == "float":
        vals = rng.uniform(0.1, 20.0, size=(n, n))
        vals = np.triu(vals, 1)
        res = (vals + vals.T) * adj
    elif kind == "float32":
        vals = rng.uniform(0.1, 20.0, size=(n, n)).astype(np.float32)
        vals = np.triu(vals, 1)
        res = (vals + vals.T) * adj.astype(np.float32)
    else:
        re = np.triu(rng.uniform(0.1, 20.0, size=(n, n)), 1)
        im = np.triu(rng.uniform(0.1, 20.0, size=(n, n)), 1)
        res = ((re + re.T) + 1j * (im + im.T)) * adj
    return adj, res


def main():
    # --- reference networks ------------------------------------------------
    net = call("small.new", ResNetwork.SmallTestNetwork)
    state("small.init", net)
    measures("small", net)
    call("small.upd_unit", net.update_resistances, net.adjacency)
    state("small.unit", net)
    measures("small.unit", net)
    # list input, scaled resistances
    call("small.upd_list", net.update_resistances,
         (3 * np.asarray(ResNetwork.SmallTestNetwork().resistances)).tolist())
    state("small.list", net)
    measures("small.list", net)
    # switch real -> complex -> real on the same object
    cres = ResNetwork.SmallComplexNetwork().resistances
    call("small.upd_cplx", net.update_resistances, cres)
    state("small.cplx", net)
    measures("small.cplx", net)
    call("small.upd_back", net.update_resistances,
         ResNetwork.SmallTestNetwork().resistances.astype(float))
    measures("small.back", net)

    cnet = call("complex.new", ResNetwork.SmallComplexNetwork)
    state("complex.init", cnet)
    measures("complex", cnet)

    # --- cache handling across call sequences ------------------------------
    net = ResNetwork.SmallTestNetwork()
    call("cache.aer", net.average_effective_resistance)
    state("cache.a", net)
    call("cache.upd", net.update_resistances, 2.5 * net.resistances)
    state("cache.b", net)
    call("cache.diam", net.diameter_effective_resistance)
    state("cache.c", net)
    call("cache.updR", net.update_R)
    state("cache.d", net)
    call("cache.updA", net.update_admittance)
    state("cache.e", net)
    call("cache.diam2", net.diameter_effective_resistance)
    call("cache.diam3", net.diameter_effective_resistance)
    state("cache.f", net)

    # --- random networks ----------------------------------------------------
    case = 0
    for kind in ("int", "float", "float32", "complex"):
        for n in (2, 3, 4, 6, 9, 13):
            case += 1
            adj, res = random_network(1000 + case, n, kind)
            tag = f"rnd.{kind}.{n}"
            net = call(tag + ".new", ResNetwork, res, adjacency=adj)
            if net is None:
                continue
            state(tag + ".init", net)
            measures(tag, net, full=n <= 9)
            # follow a change of the resistances
            call(tag + ".upd", net.update_resistances, res * 1.75)
            measures(tag + ".scaled", net, full=False)
            # adjacency deduced from resistances
            net2 = call(tag + ".new2", ResNetwork, res)
            if net2 is not None:
                state(tag + ".init2", net2)
                call(tag + ".aer2", net2.average_effective_resistance)
                call(tag + ".ecfb2", net2.edge_current_flow_betweenness)

    # --- series / parallel / disconnected / directed -----------------------
    for n in (2, 5, 8):
        res = np.zeros((n, n))
        for i in range(n - 1):
            res[i, i + 1] = res[i + 1, i] = i + 1.5
        net = call(f"path.{n}.new", ResNetwork, res)
        measures(f"path.{n}", net)
    res = np.zeros((6, 6))
    res[0, 1] = res[1, 0] = 2.0
    res[1, 2] = res[2, 1] = 3.0
    res[3, 4] = res[4, 3] = 5.0
    res[4, 5] = res[5, 4] = 7.0
    net = call("disc.new", ResNetwork, res)
    measures("disc", net)
    # non-symmetric resistances
    res = np.array([[0, 1., 0, 4.], [2., 0, 3., 0], [0, 5., 0, 1.],
                    [6., 0, 2., 0]])
    net = call("asym.new", ResNetwork, res)
    if net is not None:
        measures("asym", net)
    # zero resistance on an existing link (division by zero -> inf)
    adj = np.array([[0, 1, 1], [1, 0, 1], [1, 1, 0]], dtype=np.int8)
    res = np.array([[0, 1., 0.], [1., 0, 2.], [0., 2., 0]])
    net = call("zero.new", ResNetwork, res, adjacency=adj)
    if net is not None:
        state("zero.init", net)
    resi = np.array([[0, 1, 0], [1, 0, 2], [0, 2, 0]])
    net = call("zeroi.new", ResNetwork, resi, adjacency=adj)
    if net is not None:
        state("zeroi.init", net)

    # --- error behaviour and state after errors ----------------------------
    net = ResNetwork.SmallTestNetwork()
    net.average_effective_resistance()
    call("err.small_res", net.update_resistances, np.ones((3, 3)))
    state("err.small_res.state", net)
    measures("err.small_res.after", net, full=False)
    net = ResNetwork.SmallTestNetwork()
    call("err.1d", net.update_resistances, [1, 2, 3, 4, 5])
    state("err.1d.state", net)
    net = ResNetwork.SmallTestNetwork()
    call("err.str", net.update_resistances, "abc")
    state("err.str.state", net)
    net = ResNetwork.SmallTestNetwork()
    call("err.none", net.update_resistances, None)
    state("err.none.state", net)
    net = ResNetwork.SmallTestNetwork()
    call("err.er_oob", net.effective_resistance, 0, 7)
    call("err.er_neg", net.effective_resistance, -1, 2)
    call("err.er_eq_oob", net.effective_resistance, 9, 9)
    call("err.er_float", net.effective_resistance, 1.0, 1)
    call("err.ercc_oob", net.effective_resistance_closeness_centrality, 11)
    call("err.ercc_neg", net.effective_resistance_closeness_centrality, -1)
    state("err.er.state", net)
    # adjacency changed without updating the resistances
    net = ResNetwork.SmallTestNetwork()
    net.adjacency = np.ones((7, 7), dtype=np.int8) - np.eye(7, dtype=np.int8)
    call("err.adj.aer", net.average_effective_resistance)
    state("err.adj.state", net)
    call("err.adj.diam", net.diameter_effective_resistance)
    call("err.adj.vcfb", net.vertex_current_flow_betweenness, 1)
    call("err.adj.ecfb", net.edge_current_flow_betweenness)
    call("err.adj.ercc", net.effective_resistance_closeness_centrality, 0)
    call("err.adj.lap", net.admittance_lapacian)
    call("err.adj.updA", net.update_admittance)
    state("err.adj.state2", net)
    call("err.adj.updR", net.update_R)
    state("err.adj.state3", net)

    # --- the compiled kernels directly --------------------------------------
    for seed, n in ((1, 1), (2, 2), (3, 3), (4, 5), (5, 8), (6, 17), (7, 40)):
        rng = np.random.RandomState(seed)
        adm = rng.uniform(-1, 1, size=(n, n)).astype(np.float32)
        adm[rng.rand(n, n) < 0.4] = 0
        big = rng.uniform(-5, 5, size=(n, n)).astype(np.float32)
        for Is, It in ((1.0, 1.0), (0.3, 2.5), (-1.25, 0.0)):
            for i in sorted({0, n // 2, n - 1}):
                call(f"kern.v.{n}.{Is}.{It}.{i}",
                     _vertex_current_flow_betweenness, n, Is, It, adm, big, i)
            call(f"kern.e.{n}.{Is}.{It}",
                 _edge_current_flow_betweenness, n, Is, It, adm, big)
    call("kern.v.n0", _vertex_current_flow_betweenness, 0, 1.0, 1.0,
         np.zeros((0, 0), np.float32), np.zeros((0, 0), np.float32), 0)
    call("kern.e.n0", _edge_current_flow_betweenness, 0, 1.0, 1.0,
         np.zeros((0, 0), np.float32), np.zeros((0, 0), np.float32))
    call("kern.e.dtype", _edge_current_flow_betweenness, 2, 1.0, 1.0,
         np.zeros((2, 2)), np.zeros((2, 2), np.float32))
    call("kern.v.ndim", _vertex_current_flow_betweenness, 2, 1.0, 1.0,
         np.zeros(4, np.float32), np.zeros((2, 2), np.float32), 0)
    # special values
    adm = np.array([[0, np.inf, 1], [np.nan, 0, 2], [1, 2, 0]], np.float32)
    big = np.array([[1, -2, np.inf], [0.5, np.nan, 1], [3, 1, -1]],
                   np.float32)
    call("kern.v.special", _vertex_current_flow_betweenness,
         3, 1.0, 1.0, adm, big, 1)
    call("kern.e.special", _edge_current_flow_betweenness,
         3, 1.0, 1.0, adm, big)

    print(f"items={N_ITEMS[0]}")
    print("digest=" + H.hexdigest())


if __name__ == "__main__":
    main()
