"""Digest of Surrogates.test_pearson_correlation / test_mutual_information."""
import hashlib
import io
import contextlib
import warnings
import numpy as np
from pyunicorn.timeseries import Surrogates

warnings.simplefilter("ignore")
h = hashlib.sha256()


def feed(tag, obj):
    h.update(repr(tag).encode())
    if isinstance(obj, np.ndarray):
        h.update(str(obj.dtype).encode() + repr(obj.shape).encode())
        h.update(np.ascontiguousarray(obj).tobytes())
    else:
        h.update(repr(obj).encode())


def run(tag, fn):
    out = io.StringIO()
    try:
        with contextlib.redirect_stdout(out), np.errstate(all='ignore'):
            res = fn()
        feed(tag, res)
    except Exception as e:  # pylint: disable=broad-except
        feed(tag, "EXC:" + type(e).__name__ + ":" + str(e))
    feed(tag, out.getvalue())


def normalise(x):
    x = x - x.mean(axis=1, keepdims=True)
    return x / x.std(axis=1, keepdims=True)


def pairs():
    rng = np.random.RandomState(3)
    out = []
    for (N, T) in ((1, 10), (2, 7), (3, 50), (6, 128), (9, 33)):
        orig = rng.randn(N, T)
        for k in range(1, N):
            orig[k] += 0.6 * orig[k - 1]
        orig = normalise(orig)
        surr = np.array([rng.permutation(row) for row in orig])
        out.append((orig, surr))
        out.append((orig, orig.copy()))              # identical series
        out.append((orig, -orig[::-1].copy()))
    # not normalised, integer valued, float32, Fortran ordered, strided
    a = rng.randint(-4, 5, size=(4, 40))
    out.append((a, a[:, ::-1]))
    b = (100 * rng.rand(5, 24)).astype(np.float32)
    out.append((b, np.asfortranarray(b[::-1])))
    c = rng.randn(6, 60)
    out.append((c[::2, ::2], c[1::2, 1::2]))
    # constant data (zero range), a constant row, extreme values
    out.append((np.ones((3, 8)), np.ones((3, 8))))
    d = rng.randn(3, 16)
    d[1] = d.max()
    out.append((d, rng.randn(3, 16) * 1e-3))
    e = rng.randn(2, 12)
    e[0, 3] = np.inf
    out.append((e, rng.randn(2, 12)))
    f = rng.randn(2, 12)
    f[1, 5] = np.nan
    out.append((f, rng.randn(2, 12)))
    out.append((np.zeros((0, 5)), np.zeros((0, 5))))
    out.append((np.zeros((3, 0)), np.zeros((3, 0))))
    return out


for n, (orig, surr) in enumerate(pairs()):
    o0, s0 = np.array(orig, copy=True), np.array(surr, copy=True)
    run(("pc", n), lambda: Surrogates.test_pearson_correlation(orig, surr))
    run(("pc-swap", n),
        lambda: Surrogates.test_pearson_correlation(surr, orig))
    run(("mi-default", n),
        lambda: Surrogates.test_mutual_information(orig, surr))
    for n_bins in (1, 2, 3, 8, 32, 100, 0, -2):
        run(("mi", n, n_bins), lambda: Surrogates.test_mutual_information(
            orig, surr, n_bins=n_bins))
        run(("mi-swap", n, n_bins),
            lambda: Surrogates.test_mutual_information(
                surr, orig, n_bins=n_bins))
    # repeated calls must not depend on earlier ones
    run(("mi-again", n),
        lambda: Surrogates.test_mutual_information(orig, surr, n_bins=8))
    feed(("inputs", n), bool(np.array_equal(o0, orig, equal_nan=True)
                             and np.array_equal(s0, surr, equal_nan=True)))

# shape mismatch
x = np.zeros((3, 10))
run("pc-shape", lambda: Surrogates.test_pearson_correlation(x, x[:, :9]))
run("mi-shape", lambda: Surrogates.test_mutual_information(x, x[:2]))
run("pc-1d", lambda: Surrogates.test_pearson_correlation(x[0], x[0]))

# through the public significance test
s = Surrogates(Surrogates.SmallTestData().original_data.copy(),
               silence_level=3)
np.random.seed(99)
run("signif-pc", lambda: s.test_threshold_significance(
    Surrogates.white_noise_surrogates, Surrogates.test_pearson_correlation,
    realizations=3, interval=[-1, 1]))
np.random.seed(99)
run("signif-mi", lambda: s.test_threshold_significance(
    Surrogates.white_noise_surrogates, Surrogates.test_mutual_information,
    realizations=3, interval=[0, 2]))

print(h.hexdigest())
