"""Equivalence digest for GeoGrid.node_number / angular_distance."""
import hashlib
import warnings
import numpy as np

from pyunicorn.core.geo_grid import GeoGrid

warnings.simplefilter("ignore")
H = hashlib.sha256()


def feed(tag, obj):
    H.update(tag.encode())
    if isinstance(obj, np.ndarray):
        H.update(str(obj.dtype).encode() + str(obj.shape).encode())
        H.update(np.ascontiguousarray(obj).tobytes())
    elif isinstance(obj, np.generic):
        H.update(str(obj.dtype).encode() + repr(obj.item()).encode())
    else:
        H.update(type(obj).__name__.encode() + repr(obj).encode())


def attempt(tag, fun, *args, **kwargs):
    try:
        feed(tag, fun(*args, **kwargs))
    except Exception as e:  # pylint: disable=broad-except
        feed(tag + ":exc", type(e).__name__)


class Traced(GeoGrid):
    """Records the order in which the trigonometric sequences are asked."""
    log = []

    def cos_lat(self):
        Traced.log.append("cos_lat")
        return GeoGrid.cos_lat(self)

    def sin_lat(self):
        Traced.log.append("sin_lat")
        return GeoGrid.sin_lat(self)

    def cos_lon(self):
        Traced.log.append("cos_lon")
        return GeoGrid.cos_lon(self)

    def sin_lon(self):
        Traced.log.append("sin_lon")
        return GeoGrid.sin_lon(self)


rng = np.random.default_rng(977)

for n in (1, 2, 6, 31, 120):
    lat = rng.uniform(-90, 90, n)
    lon = rng.uniform(-180, 360, n)
    if n >= 6:
        lat[1], lon[1] = lat[0], lon[0]              # tie
        lat[2], lon[2] = -lat[0], lon[0] + 180.
        lat[3], lon[3] = 90., 10.
        lat[4], lon[4] = 90., 250.                   # same point as [3]
    g = GeoGrid(np.arange(5.), lat, lon, silence_level=2)
    state0 = sorted(g.__dict__)
    # scalar look-ups
    qs = [(rng.uniform(-90, 90), rng.uniform(-180, 360)) for _ in range(60)]
    qs += [(float(lat[i]), float(lon[i])) for i in range(n)]
    qs += [(90., 0.), (-90., 123.), (0., 0.), (0, 180), (91., 400.),
           (np.float32(12.5), np.float32(-33.25)), (np.nan, 0.), (0., np.inf),
           (np.float64(45.), 7), (True, False)]
    for k, (la, lo) in enumerate(qs):
        attempt(f"nn{n}_{k}", g.node_number, la, lo)
    attempt(f"nnkw{n}", g.node_number, lon_node=3., lat_node=4.)
    # array valued / broadcasting queries
    attempt(f"nnarr{n}", g.node_number, rng.uniform(-90, 90, n),
            rng.uniform(-180, 180, n))
    attempt(f"nnarr2{n}", g.node_number, rng.uniform(-90, 90, (3, 1)),
            rng.uniform(-180, 180, (3, 1)))
    attempt(f"nnarr3{n}", g.node_number, rng.uniform(-90, 90, n + 2), 1.)
    attempt(f"nnarr4{n}", g.node_number, 1., rng.uniform(-90, 90, n + 2))
    # bad arguments
    for k, (la, lo) in enumerate([("a", 1.), (1., "b"), (None, 1.),
                                  (1., None), ([1., 2.], 1.), (1., [3.]),
                                  ((), ()), (1j, 2.), ({}, 1.)]):
        attempt(f"nnbad{n}_{k}", g.node_number, la, lo)
    attempt(f"nnmissing{n}", g.node_number, 1.)
    feed(f"state{n}", sorted(g.__dict__) == state0)
    # distances
    d1 = g.angular_distance()
    d2 = g.angular_distance()
    feed(f"ang{n}", d1)
    feed(f"angcached{n}", d1 is d2)
    feed(f"dist{n}", g.distance())
    feed(f"range{n}", bool(((d1 >= 0) & (d1 <= np.pi)).all()))
    feed(f"sym{n}", bool((d1 == d1.T).all()))
    # nearest node really is at minimal distance
    for i in range(min(n, 10)):
        feed(f"self{n}_{i}",
             g.node_number(float(g.lat_sequence()[i]),
                           float(g.lon_sequence()[i])))
    for name in ("cos_lat", "sin_lat", "cos_lon", "sin_lon"):
        feed(f"{name}{n}", getattr(g, name)())

# order of helper calls as seen by a subclass
t = Traced(np.arange(3.), rng.uniform(-90, 90, 7), rng.uniform(0, 360, 7), 2)
attempt("traced_nn", t.node_number, 10., 20.)
attempt("traced_nn_bad", t.node_number, "x", 20.)
attempt("traced_ang", t.angular_distance)
attempt("traced_ang2", t.angular_distance)
feed("traced_log", Traced.log)

s = GeoGrid.SmallTestGrid()
feed("small_nn", s.node_number(lat_node=14., lon_node=9.))
feed("small_ang", s.angular_distance())
r = GeoGrid.RegularGrid(np.arange(4.), (np.array([-30., 0., 45.]),
                                        np.array([0., 90., 180., 270.])), 2)
feed("reg_ang", r.angular_distance())
for la in (-40., -15., 0., 22.4, 22.6, 80.):
    for lo in (-10., 44., 46., 135., 300., 359.):
        feed(f"reg_nn{la}_{lo}", r.node_number(la, lo))

print(H.hexdigest())
