"""Equivalence digest for twin_3 (Cython wrappers handing raw pointers to C:
climate/_ext/numerics.pyx, core/_ext/numerics.pyx, timeseries/_ext/numerics.pyx)

Run as:  PYTHONPATH=<worktree>/src /venv/bin/python equiv.py
"""
import hashlib
import warnings

import numpy as np

from pyunicorn.climate._ext.numerics import mutual_information, spearman_corr
from pyunicorn.core._ext.numerics import \
    _vertex_current_flow_betweenness, _edge_current_flow_betweenness
from pyunicorn.timeseries._ext.numerics import \
    _test_pearson_correlation, _test_mutual_information
from pyunicorn.core._ext.types import to_cy, MASK, FIELD, DFIELD
from pyunicorn.core.resistive_network import ResNetwork
from pyunicorn.timeseries.surrogates import Surrogates
from pyunicorn.climate.rainfall import RainfallClimateNetwork

warnings.simplefilter("ignore")
h = hashlib.sha256()


def feed(tag, obj):
    h.update(tag.encode())
    if isinstance(obj, np.ndarray):
        h.update(str(obj.dtype).encode())
        h.update(repr(obj.shape).encode())
        h.update(repr(obj.flags.c_contiguous).encode())
        h.update(np.ascontiguousarray(obj).tobytes())
    elif isinstance(obj, float):
        h.update(b"float")
        h.update(np.float64(obj).tobytes())
    else:
        h.update(type(obj).__name__.encode())
        h.update(repr(obj).encode())


def call(tag, fn, *args, **kwargs):
    try:
        feed(tag, fn(*args, **kwargs))
    except Exception as exc:  # pylint: disable=broad-except
        feed(tag, "EXC:" + type(exc).__name__ + ":" + str(exc))


rng = np.random.RandomState(320)

# 0) embedded signatures / docstrings of the wrappers
for fn in (mutual_information, spearman_corr,
           _vertex_current_flow_betweenness, _edge_current_flow_betweenness,
           _test_pearson_correlation, _test_mutual_information):
    feed("doc", fn.__doc__)
    feed("name", fn.__name__)

# 1) climate: mutual_information wrapper
for (N, n_samples) in ((0, 0), (0, 3), (3, 0), (1, 1), (1, 6), (2, 2),
                       (4, 11), (9, 5), (6, 40)):
    for n_bins in (-2, 0, 1, 2, 7, 32):
        anomaly = to_cy(rng.randn(N, n_samples), FIELD)
        if anomaly.size:
            rmin, rmax = float(anomaly.min()), float(anomaly.max())
        else:
            rmin, rmax = 0.0, 1.0
        scaling = 1. / (rmax - rmin) if rmax > rmin else 1.0
        keep = anomaly.copy()
        call(f"cmi/{N}/{n_samples}/{n_bins}", mutual_information,
             anomaly, n_samples, N, n_bins, scaling, rmin)
        assert keep.tobytes() == anomaly.tobytes()
call("cmi/none", mutual_information, None, 1, 1, 2, 1.0, 0.0)
call("cmi/dtype", mutual_information, np.zeros((2, 2)), 2, 2, 2, 1.0, 0.0)
call("cmi/neg", mutual_information, np.zeros((2, 2), np.float32),
     2, -2, 2, 1.0, 0.0)
call("cmi/argtype", mutual_information, np.zeros((2, 2), np.float32),
     2, 2, 2, "x", 0.0)

# 2) climate: spearman_corr wrapper
for (m, tmax) in ((0, 0), (0, 4), (4, 0), (1, 1), (1, 8), (3, 3), (7, 4),
                  (5, 30)):
    mask = to_cy(rng.rand(m, tmax) < 0.6, MASK)
    ranked = to_cy(rng.randn(m, tmax).argsort(axis=1).argsort(axis=1) + 1.0,
                   FIELD)
    call(f"sp/{m}/{tmax}", spearman_corr, m, tmax, mask, ranked)
    call(f"spapi/{m}/{tmax}", RainfallClimateNetwork.spearman_corr,
         RainfallClimateNetwork, mask.astype(bool), rng.randn(m, tmax))
call("sp/none", spearman_corr, 2, 2, np.zeros((2, 2), np.int8), None)
call("sp/neg", spearman_corr, -3, 2, np.zeros((2, 2), np.int8),
     np.zeros((2, 2), np.float32))

# 3) core: resistive-network wrappers
for N in (0, 1, 2, 3, 5, 8):
    adm = to_cy(rng.rand(N, N), FIELD)
    R = to_cy(rng.rand(N, N), FIELD)
    for (Is, It) in ((1.0, 1.0), (0.5, 2.0), (np.float32(1.0), 0.0)):
        for i in range(N):
            call(f"vcfb/{N}/{i}", _vertex_current_flow_betweenness,
                 N, Is, It, adm, R, i)
        call(f"ecfb/{N}", _edge_current_flow_betweenness, N, Is, It, adm, R)
    # non-contiguous / Fortran views are accepted by the buffer signature
    if N:
        call(f"ecfbF/{N}", _edge_current_flow_betweenness, N, 1.0, 1.0,
             np.asfortranarray(adm), np.asfortranarray(R))
        call(f"vcfbF/{N}", _vertex_current_flow_betweenness, N, 1.0, 1.0,
             np.asfortranarray(adm), np.asfortranarray(R), 0)
call("ecfb/dtype", _edge_current_flow_betweenness, 2, 1.0, 1.0,
     np.zeros((2, 2)), np.zeros((2, 2), np.float32))
call("ecfb/neg", _edge_current_flow_betweenness, -1, 1.0, 1.0,
     np.zeros((2, 2), np.float32), np.zeros((2, 2), np.float32))
call("vcfb/dtype", _vertex_current_flow_betweenness, 2, 1.0, 1.0,
     np.zeros((2, 2), np.float32), np.zeros((2, 2)), 0)
call("vcfb/argtype", _vertex_current_flow_betweenness, 2, "a", 1.0,
     np.zeros((2, 2), np.float32), np.zeros((2, 2), np.float32), 0)

res = ResNetwork.SmallTestNetwork()
for i in range(res.N):
    call(f"res/v/{i}", res.vertex_current_flow_betweenness, i)
call("res/v/oob", res.vertex_current_flow_betweenness, res.N)
call("res/e", res.edge_current_flow_betweenness)
res.update_resistances(res.adjacency)
call("res/e2", res.edge_current_flow_betweenness)
call("res/v2", res.vertex_current_flow_betweenness, 1)

# 4) timeseries: surrogate test wrappers
for (N, n_time) in ((0, 0), (0, 5), (5, 0), (1, 1), (1, 7), (2, 2), (3, 10),
                    (12, 3), (5, 64)):
    for kind in ("normal", "const", "ties"):
        if kind == "normal":
            a, b = rng.randn(N, n_time), rng.randn(N, n_time)
        elif kind == "const":
            a, b = np.ones((N, n_time)), np.ones((N, n_time))
        else:
            a = rng.randint(0, 3, size=(N, n_time)).astype(float)
            b = rng.randint(0, 3, size=(N, n_time)).astype(float)
        ac, bc = to_cy(a, DFIELD), to_cy(b, DFIELD)
        call(f"tp/{N}/{n_time}/{kind}", _test_pearson_correlation,
             ac, bc, N, n_time)
        call(f"Stp/{N}/{n_time}/{kind}", Surrogates.test_pearson_correlation,
             a, b)
        for n_bins in (-1, 0, 1, 3, 32):
            call(f"tmi/{N}/{n_time}/{kind}/{n_bins}",
                 _test_mutual_information, ac, bc, N, n_time, n_bins)
        call(f"Stmi/{N}/{n_time}/{kind}", Surrogates.test_mutual_information,
             a, b)
call("tp/none", _test_pearson_correlation, None, np.zeros((2, 2)), 2, 2)
call("tmi/none", _test_mutual_information, np.zeros((2, 2)), None, 2, 2, 4)
call("tp/negN", _test_pearson_correlation,
     np.zeros((2, 2)), np.zeros((2, 2)), -1, 2)
call("tmi/negN", _test_mutual_information,
     rng.randn(2, 2), rng.randn(2, 2), -1, 2, 4)
call("tmi/negT", _test_mutual_information,
     rng.randn(2, 2), rng.randn(2, 2), 2, -2, 4)

print(h.hexdigest())
