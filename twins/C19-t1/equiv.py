"""
Equivalence digest for property C19 (distributed computation returns the
serial result).

Run as:  PYTHONPATH=<worktree>/src /venv/bin/python equiv.py

Exercises
  A. the serial branch of newman / nsi_newman / nsi_arenas / nsi_betweenness
     for all verbosity settings (stdout is part of the digest, wall-clock
     lines removed),
  B. the distributed branch of the three master loops with the real
     pyunicorn.utils.mpi master code driven by an in-process fake communicator
     (FIFO per worker, tasks pickled like a real send), for several numbers of
     workers and execution orders,
  C. the distributed branch with a minimal stub replacing pyunicorn.utils.mpi
     inside pyunicorn.core.network,
  D. the chunk kernels directly with several partitions of the node range and
     with malformed arguments (exception types),
  E. the serial submit_call / get_result / get_next_result protocol directly,
  F. the multiprocessing split of targets in nsi_betweenness.
"""

import contextlib
import hashlib
import io
import pickle
import re
import sys
import time

import numpy as np


H = hashlib.sha256()
SECTIONS = []
EXCS = []


def feed(tag, obj):
    """Add a canonical encoding of obj to the global digest."""
    h = hashlib.sha256()
    _enc(h, obj)
    d = h.hexdigest()
    H.update(tag.encode() + b"=" + d.encode() + b";")
    SECTIONS.append((tag, d))


def _enc(h, obj):
    if isinstance(obj, np.ndarray):
        h.update(b"A" + str(obj.dtype).encode() + str(obj.shape).encode())
        h.update(np.ascontiguousarray(obj).tobytes())
    elif isinstance(obj, (tuple, list)):
        h.update(b"T" if isinstance(obj, tuple) else b"L")
        h.update(str(len(obj)).encode())
        for o in obj:
            _enc(h, o)
    elif isinstance(obj, dict):
        h.update(b"D" + str(len(obj)).encode())
        for k in obj:          # insertion order is part of the behaviour
            _enc(h, k)
            _enc(h, obj[k])
    elif isinstance(obj, (np.floating, float)):
        h.update(b"F" + type(obj).__name__.encode()
                 + np.float64(obj).tobytes())
    elif isinstance(obj, (np.integer, int, bool, np.bool_)):
        h.update(b"I" + type(obj).__name__.encode() + repr(int(obj)).encode())
    elif obj is None:
        h.update(b"N")
    elif isinstance(obj, str):
        h.update(b"S" + obj.encode())
    elif isinstance(obj, bytes):
        h.update(b"B" + obj)
    else:
        h.update(b"O" + type(obj).__name__.encode() + repr(obj).encode())


_WARN_LOC = re.compile(r"^\S*\.py:\d+: ")


def clean(text):
    """Remove wall-clock dependent lines from captured output, and the
    "<path>:<lineno>: " source location prefix of warnings.warn output (it
    depends on where the worktree lives and on line numbering only)."""
    return "\n".join(_WARN_LOC.sub("", ln) for ln in text.split("\n")
                     if "...took" not in ln)


def attempt(fun, *args, **kwargs):
    """Run fun, capture stdout/stderr, return (result | exception, out)."""
    out, err = io.StringIO(), io.StringIO()
    with contextlib.redirect_stdout(out), contextlib.redirect_stderr(err):
        try:
            res = fun(*args, **kwargs)
        except BaseException as e:  # pylint: disable=broad-except
            res = "EXC:" + type(e).__name__ + ":" + str(e)[:200]
            EXCS.append(res)
    return res, clean(out.getvalue()), clean(err.getvalue())


# -----------------------------------------------------------------------------
#  inputs
# -----------------------------------------------------------------------------

def random_adjacency(rng, sizes, p, isolated=0):
    """Block-diagonal undirected graph, each block connected (path + random
    links), plus isolated nodes; node order shuffled."""
    N = sum(sizes) + isolated
    A = np.zeros((N, N), dtype=np.int8)
    off = 0
    for n in sizes:
        for i in range(n - 1):
            A[off + i, off + i + 1] = A[off + i + 1, off + i] = 1
        R = np.triu((rng.random((n, n)) < p).astype(np.int8), 1)
        A[off:off + n, off:off + n] |= (R | R.T)
        off += n
    perm = rng.permutation(N)
    A = A[np.ix_(perm, perm)]
    np.fill_diagonal(A, 0)
    return A


def make_inputs():
    rng = np.random.default_rng(20190619)
    specs = [
        ((2,), 0.5, 0), ((3,), 0.5, 1), ((7,), 0.4, 0), ((11,), 0.3, 2),
        ((13, 5), 0.25, 1), ((25,), 0.15, 0), ((31, 12, 2), 0.12, 3),
        ((47,), 0.08, 0), ((60,), 0.06, 1),
    ]
    inputs = []
    for sizes, p, iso in specs:
        A = random_adjacency(rng, sizes, p, iso)
        w = rng.uniform(0.5, 3.0, size=A.shape[0])
        inputs.append((A, w))
    return inputs


# -----------------------------------------------------------------------------
#  fake MPI runtime
# -----------------------------------------------------------------------------

class FakeComm:
    """In-process replacement for MPI.COMM_WORLD as seen by the master.

    send(task, dest) ships a pickled task to worker `dest`; recv(source)
    returns the oldest unfetched (result, stats) of that worker.  Depending on
    `mode`, workers process their tasks immediately ("eager"), only when the
    master asks ("lazy"), or all pending tasks of all workers are processed in
    reverse worker order at the first recv ("reverse").
    """

    def __init__(self, size, mode):
        self.size, self.rank, self.mode = size, 0, mode
        self.todo = [[] for _ in range(size)]
        self.done = [[] for _ in range(size)]
        self.n_proc = [0] * size
        self.log = []

    def _work(self, rank):
        while self.todo[rank]:
            blob = self.todo[rank].pop(0)
            name, args, kwargs, module, time_est = pickle.loads(blob)
            fun = eval(name, sys.modules[module].__dict__)
            result = fun(*args, **kwargs)
            self.n_proc[rank] += 1
            stats = {"id": None, "rank": rank, "this_time": 0.0,
                     "time_over_est": 0.0, "n_processed": self.n_proc[rank],
                     "total_time": float(self.n_proc[rank])}
            self.done[rank].append(pickle.dumps((result, stats)))

    def send(self, task, dest):
        self.log.append(("send", int(dest), task[0], task[3],
                         float(task[4])))
        self.todo[dest].append(pickle.dumps(task))
        if self.mode == "eager":
            self._work(dest)

    def recv(self, source):
        self.log.append(("recv", int(source)))
        if self.mode == "reverse":
            for rank in range(self.size - 1, 0, -1):
                self._work(rank)
        else:
            self._work(source)
        return pickle.loads(self.done[source].pop(0))


@contextlib.contextmanager
def fake_mpi(size, mode):
    """Switch the real pyunicorn.utils.mpi module into master-with-workers
    state on top of a FakeComm."""
    from pyunicorn.utils import mpi
    names = ["available", "size", "n_slaves", "total_time_est", "queue",
             "assigned", "slave_queue", "n_processed", "total_time", "stats"]
    saved = {n: getattr(mpi, n) for n in names}
    had_comm = hasattr(mpi, "comm")
    old_comm = getattr(mpi, "comm", None)
    comm = FakeComm(size, mode)
    mpi.comm = comm
    mpi.available, mpi.size, mpi.n_slaves = True, size, size - 1
    mpi.total_time_est = np.zeros(size)
    mpi.total_time_est[0] = np.inf
    mpi.queue, mpi.assigned = [], {}
    mpi.slave_queue = [[] for _ in range(size)]
    mpi.n_processed = np.zeros(size).astype("int")
    mpi.total_time = np.zeros(size)
    mpi.stats = []
    try:
        yield mpi, comm
    finally:
        for n, v in saved.items():
            setattr(mpi, n, v)
        if had_comm:
            mpi.comm = old_comm
        else:
            del mpi.comm


def mpi_state(mpi, comm):
    return (list(comm.log), list(mpi.queue), dict(mpi.assigned),
            [list(q) for q in mpi.slave_queue],
            np.array(mpi.total_time_est), np.array(mpi.n_processed),
            np.array(mpi.total_time), [dict(s) for s in mpi.stats])


class StubMPI:
    """Minimal stand-in for pyunicorn.utils.mpi used inside core.network."""

    def __init__(self, size, order):
        self.available, self.size, self.order = True, size, order
        self.pending, self.results, self.calls = [], {}, []

    def submit_call(self, name_to_call, args=(), kwargs={},
                    module="__main__", time_est=1, id=None, slave=None):
        self.calls.append(("submit", name_to_call, module, id,
                           float(time_est)))
        self.pending.append(
            (id, pickle.dumps((name_to_call, args, kwargs, module))))
        return id

    def _flush(self):
        todo = self.pending[::-1] if self.order == "reverse" else self.pending
        self.pending = []
        for id_, blob in todo:
            name, args, kwargs, module = pickle.loads(blob)
            fun = eval(name, sys.modules[module].__dict__)
            self.results[id_] = pickle.loads(
                pickle.dumps(fun(*args, **kwargs)))

    def get_result(self, id):
        self.calls.append(("get", id))
        self._flush()
        return self.results.pop(id)


# -----------------------------------------------------------------------------
#  measures
# -----------------------------------------------------------------------------

MEASURES = [
    ("newman", lambda n: n.newman_betweenness()),
    ("nsi_newman", lambda n: n.nsi_newman_betweenness()),
    ("nsi_newman_ends", lambda n: n.nsi_newman_betweenness(
        add_local_ends=True)),
    ("nsi_arenas", lambda n: n.nsi_arenas_betweenness()),
    ("nsi_arenas_incl", lambda n: n.nsi_arenas_betweenness(
        exclude_neighbors=False)),
    ("nsi_arenas_twin", lambda n: n.nsi_arenas_betweenness(
        stopping_mode="twinness")),
    ("nsi_arenas_twin_incl", lambda n: n.nsi_arenas_betweenness(
        exclude_neighbors=False, stopping_mode="twinness")),
    ("nsi_betw", lambda n: n.nsi_betweenness()),
    ("betw", lambda n: n.nsi_betweenness(nsi=False)),
]


def section_serial(inputs):
    from pyunicorn.core.network import Network
    for k, (A, w) in enumerate(inputs):
        for sl in (0, 1, 2):
            for name, fun in MEASURES:
                net = Network(adjacency=A, directed=False, node_weights=w,
                              silence_level=sl)
                feed(f"A/{k}/{sl}/{name}", attempt(fun, net))
    net = Network.SmallTestNetwork()
    for name, fun in MEASURES:
        feed(f"A/small/{name}", attempt(fun, net))
        feed(f"A/small/again/{name}", attempt(fun, net))
    net = Network.SmallTestNetwork().splitted_copy()
    for name, fun in MEASURES:
        feed(f"A/split/{name}", attempt(fun, net))


def section_fake_mpi(inputs):
    from pyunicorn.core.network import Network
    configs = [(2, "lazy"), (2, "eager"), (3, "reverse"), (4, "lazy"),
               (7, "eager"), (12, "reverse")]
    for k, (A, w) in enumerate(inputs):
        for size, mode in configs:
            for sl in ((0, 2) if size in (2, 7) else (1,)):
                for name, fun in MEASURES[:7]:
                    with fake_mpi(size, mode) as (mpi, comm):
                        net = Network(adjacency=A, directed=False,
                                      node_weights=w, silence_level=sl)
                        res = attempt(fun, net)
                        state = mpi_state(mpi, comm)
                    feed(f"B/{k}/{size}/{mode}/{sl}/{name}", (res, state))


def section_stub_mpi(inputs):
    import pyunicorn.core.network as nw
    real = nw.mpi
    try:
        for k, (A, w) in enumerate(inputs):
            for size, order in [(2, "fifo"), (5, "reverse"), (30, "fifo")]:
                for name, fun in MEASURES[:7]:
                    stub = StubMPI(size, order)
                    nw.mpi = stub
                    net = nw.Network(adjacency=A, directed=False,
                                     node_weights=w, silence_level=0)
                    res = attempt(fun, net)
                    feed(f"C/{k}/{size}/{order}/{name}",
                         (res, list(stub.calls), sorted(stub.results)))
    finally:
        nw.mpi = real


def partitions(N):
    yield [(0, N)]
    yield [(i, i + 1) for i in range(N)]
    yield [(0, N // 2), (N // 2, N)]
    step = max(1, N // 3)
    yield [(s, min(s + step, N)) for s in range(0, N, step)]
    yield [(0, 0), (0, N), (N, N)]


def section_kernels(inputs):
    import scipy.sparse as sp
    from pyunicorn.core.network import Network
    from pyunicorn.core._ext import numerics
    from pyunicorn.core._ext.types import ADJ, DFIELD, DWEIGHT, MASK, to_cy

    feed("D/doc/newman", numerics._mpi_newman_betweenness.__doc__)
    feed("D/doc/nsi_newman", numerics._mpi_nsi_newman_betweenness.__doc__)
    feed("D/doc/arenas", Network._mpi_nsi_arenas_betweenness.__doc__)

    rng = np.random.default_rng(7)
    for k, N in enumerate([1, 2, 5, 9, 16, 23]):
        A = np.triu((rng.random((N, N)) < 0.4), 1)
        A = (A | A.T).astype(ADJ)
        V = rng.normal(size=(N, N)).astype(DFIELD)
        w = rng.uniform(0.2, 2.0, size=N).astype(DWEIGHT)
        nae = (1 - A - np.identity(N)).astype(MASK)
        for p, part in enumerate(partitions(N)):
            out1, out2 = [], []
            for (s, e) in part:
                out1.append(attempt(
                    numerics._mpi_newman_betweenness,
                    to_cy(A[s:e, :], ADJ), V, N, s, e))
                out2.append(attempt(
                    numerics._mpi_nsi_newman_betweenness,
                    to_cy(A[s:e, :], ADJ), V, N, w,
                    np.ascontiguousarray(nae[s:e, :]), s, e))
            feed(f"D/newman/{k}/{p}", out1)
            feed(f"D/nsi_newman/{k}/{p}", out2)

        # non-contiguous row slices are accepted as well
        feed(f"D/newman/{k}/strided", attempt(
            numerics._mpi_newman_betweenness, A[::2, :][:N // 2], V, N, 0,
            N // 2))
        feed(f"D/nsi_newman/{k}/strided", attempt(
            numerics._mpi_nsi_newman_betweenness, A[::2, :][:N // 2], V, N,
            w, nae[::2, :][:N // 2], 0, N // 2))

        # malformed calls: exception types must not change
        bad = [
            (A, V, N, 3, 1), (A[:1, :], V, N, 0, N + 1), (A, V, N + 1, 0, N),
            (A.astype(np.int32), V, N, 0, N), (A, V.astype(np.float32), N,
                                               0, N),
            (A, V, N, N, 2 * N), (A, V, N, -1, N - 1), (None, V, N, 0, N),
            (A, V, N, 0.5, N),
        ]
        for b, args in enumerate(bad):
            feed(f"D/newman/{k}/bad{b}", attempt(
                numerics._mpi_newman_betweenness, *args))
        bad2 = [
            (A, V, N, w, nae, 3, 1), (A[:1, :], V, N, w, nae, 0, N + 1),
            (A, V, N + 1, w, nae, 0, N), (A, V, N, w[:-1], nae, 0, N),
            (A, V, N, w, nae[:1, :], 0, N), (A, V, N, w, nae, N, 2 * N),
            (A, V, N, w, nae, -1, N - 1), (A, V, N, w.astype(np.float32),
                                           nae, 0, N),
            (A, V, N, w, nae.astype(np.int64), 0, N),
        ]
        for b, args in enumerate(bad2):
            feed(f"D/nsi_newman/{k}/bad{b}", attempt(
                numerics._mpi_nsi_newman_betweenness, *args))

    # Arenas chunk kernel (pure python, static method)
    rng = np.random.default_rng(11)
    for k, N in enumerate([2, 4, 9, 14]):
        A = random_adjacency(rng, (N,), 0.3)
        w = rng.uniform(0.5, 2.0, size=N)
        net = Network(adjacency=A, directed=False, node_weights=w,
                      silence_level=2)
        Aplus = (A + np.identity(N)).astype(int)
        twin = net.nsi_twinness()
        sp_P = (net.sp_nsi_diag_k_inv() * net.sp_Aplus()
                * net.sp_diag_w()).todok()
        P0 = sp_P.toarray().copy()
        for p, part in enumerate(partitions(N)):
            for excl in (True, False):
                for mode in ("neighbors", "twinness", "other"):
                    outs = []
                    for (s, e) in part:
                        tw = twin[s:e, :] if mode == "twinness" else None
                        outs.append(attempt(
                            Network._mpi_nsi_arenas_betweenness,
                            N, sp_P, Aplus[s:e, :], w, w[s:e], s, e, excl,
                            mode, tw))
                    feed(f"D/arenas/{k}/{p}/{excl}/{mode}", outs)
        # inputs must not be modified by the kernel
        feed(f"D/arenas/{k}/P_untouched",
             bool((sp_P.toarray() == P0).all()))
        # malformed calls
        bad = [
            (N, sp_P, Aplus[:1, :], w, w, 0, N, True, "neighbors", None),
            (N, sp_P, Aplus, w, w[:1], 0, N, True, "neighbors", None),
            (N, sp_P, Aplus, w, w, 0, N, True, "twinness", None),
            (N, sp_P, np.zeros_like(Aplus), w, w, 0, N, True, "neighbors",
             None),
            (N, sp.identity(N, format="dok"), Aplus, w, w, 0, N, False,
             "neighbors", None),
            (N + 1, sp_P, Aplus, w, w, 0, N, True, "neighbors", None),
            (N, sp_P, Aplus, w, w, 2, 1, True, "neighbors", None),
        ]
        for b, args in enumerate(bad):
            feed(f"D/arenas/{k}/bad{b}", attempt(
                Network._mpi_nsi_arenas_betweenness, *args))


def _double(x, offset=0):
    return 2 * x + offset


def _boom():
    raise KeyError("boom")


def section_protocol():
    from pyunicorn.utils import mpi
    feed("E/flags", (mpi.available, mpi.size, mpi.rank, mpi.am_master,
                     mpi.am_slave, mpi.n_slaves, mpi._verbose))
    np.random.seed(12345)

    def snapshot():
        return (list(mpi.queue), dict(mpi.assigned),
                [list(q) for q in mpi.slave_queue],
                np.array(mpi.total_time_est), np.array(mpi.n_processed),
                sorted(map(repr, mpi.results)),
                [(s["id"], s["rank"], int(s["n_processed"]))
                 for s in mpi.stats])

    def script():
        log = []
        log.append(attempt(mpi.submit_call, "sqrt", (4.0,), module="math",
                           id="a"))
        log.append(attempt(mpi.submit_call, "_double", (3,), {"offset": 5},
                           id=7, time_est=2.5))
        log.append(attempt(mpi.submit_call, "sqrt", (9.0,), module="math",
                           id="a"))                       # duplicate id
        log.append(attempt(mpi.submit_call, "nonexistent_function", (),
                           module="math", id="n"))        # NameError
        log.append(attempt(mpi.submit_call, "sqrt", (-1.0,), module="math",
                           id="v"))                       # ValueError in call
        log.append(attempt(mpi.submit_call, "_boom", id="k"))
        log.append(attempt(mpi.submit_call, "sqrt", (1.0,),
                           module="no.such.module", id="m"))
        log.append(attempt(mpi.submit_call, "sqrt", (16.0,), module="math",
                           id="s", slave=3))
        log.append(attempt(mpi.submit_call, "sqrt", (25.0,), module="math",
                           id="t", slave=0, time_est=0.5))
        rid = attempt(mpi.submit_call, "_double", (1.5,))  # random id
        log.append(rid)
        log.append(snapshot())
        log.append(attempt(mpi.get_result, 7))
        log.append(attempt(mpi.get_result, 7))             # already fetched
        log.append(attempt(mpi.get_result, "zzz"))         # unknown
        log.append(attempt(mpi.get_next_result))
        log.append(snapshot())
        log.append(attempt(mpi.get_result, rid[0]))
        log.append(attempt(mpi.get_next_result))
        log.append(attempt(mpi.get_next_result))
        log.append(attempt(mpi.get_next_result))
        log.append(attempt(mpi.get_next_result))
        log.append(snapshot())
        # id can be re-used after get_result
        log.append(attempt(mpi.submit_call, "sqrt", (36.0,), module="math",
                           id="a"))
        log.append(attempt(mpi.get_result, "a"))
        log.append(snapshot())
        log.append(attempt(mpi.info)[0])
        return log

    feed("E/quiet", script())
    old = mpi._verbose
    mpi._verbose = True
    try:
        feed("E/verbose", script())
    finally:
        mpi._verbose = old

    # master protocol on top of the fake communicator, used directly
    for size, mode in [(2, "lazy"), (4, "eager"), (5, "reverse")]:
        for verbose in (False, True):
            with fake_mpi(size, mode) as (m, comm):
                m._verbose = verbose
                try:
                    log = []
                    for n in range(9):
                        log.append(attempt(
                            m.submit_call, "sqrt", (float(n),),
                            module="math", id=n, time_est=1 + (n * 7) % 4,
                            slave=(2 if n == 4 else None)))
                    log.append(attempt(m.submit_call, "sqrt", (1.0,),
                                       module="math", id=3))
                    log.append(mpi_state(m, comm))
                    log.append(attempt(m.get_result, 8))   # maybe too early
                    for n in range(9):
                        log.append(attempt(m.get_result, n))
                    log.append(attempt(m.get_result, 8))
                    log.append(attempt(m.get_next_result))
                    log.append(mpi_state(m, comm))
                    for n in range(4):
                        log.append(attempt(m.submit_call, "_double", (n,),
                                           {"offset": n}, id=("x", n)))
                    for n in range(5):
                        log.append(attempt(m.get_next_result))
                    log.append(mpi_state(m, comm))
                finally:
                    m._verbose = False
            feed(f"E/fake/{size}/{mode}/{verbose}", log)


def section_pool(inputs):
    from pyunicorn.core.network import Network
    for k in (3, 6):
        A, w = inputs[k]
        net = Network(adjacency=A, directed=False, node_weights=w,
                      silence_level=2)
        feed(f"F/{k}/all", attempt(net.nsi_betweenness, parallelize=True))
        N = A.shape[0]
        feed(f"F/{k}/sub", attempt(
            net.nsi_betweenness, sources=list(range(0, N, 2)),
            targets=list(range(1, N, 3)), parallelize=True))
        feed(f"F/{k}/sub_serial", attempt(
            net.nsi_betweenness, sources=list(range(0, N, 2)),
            targets=list(range(1, N, 3))))
        feed(f"F/{k}/empty_targets", attempt(
            net.nsi_betweenness, targets=[], nsi=False, parallelize=True))


def main():
    t0 = time.time()
    inputs = make_inputs()
    section_serial(inputs)
    section_fake_mpi(inputs)
    section_stub_mpi(inputs)
    section_kernels(inputs)
    section_protocol()
    section_pool(inputs)
    if "-v" in sys.argv:
        for tag, d in SECTIONS:
            print(tag, d)
    if "-v" in sys.argv:
        import collections
        for e, c in collections.Counter(EXCS).items():
            sys.stderr.write(f"{c:5d} x {e}\n")
    sys.stderr.write(f"[{len(SECTIONS)} items, {time.time() - t0:.1f} s]\n")
    print("DIGEST", H.hexdigest())


if __name__ == "__main__":
    main()
