"""Equivalence digest for twin_2 (timeseries/_ext/src_numerics.c:
_test_mutual_information_fast helpers).

Run as: PYTHONPATH=<worktree>/src /venv/bin/python equiv.py
"""
import hashlib

import numpy as np

from pyunicorn.timeseries._ext.numerics import \
    _test_mutual_information, _test_pearson_correlation
from pyunicorn.timeseries.surrogates import Surrogates

H = hashlib.sha256()


def feed(tag, value):
    """Add a result (array or exception) to the digest; NaNs canonicalised."""
    H.update(tag.encode())
    if isinstance(value, BaseException):
        H.update(("EXC:" + type(value).__name__).encode())
        return
    a = np.ascontiguousarray(value)
    H.update(str(a.dtype).encode() + str(a.shape).encode())
    if a.dtype.kind == "f":
        nan = np.isnan(a)
        H.update(np.ascontiguousarray(nan).tobytes())
        a = np.where(nan, a.dtype.type(0), a)
    H.update(np.ascontiguousarray(a).tobytes())


def attempt(tag, fun, *args, **kwargs):
    try:
        with np.errstate(all="ignore"):
            res = fun(*args, **kwargs)
    except Exception as exc:  # pylint: disable=broad-except
        res = exc
    feed(tag, res)


rng = np.random.RandomState(2020)

# --- direct calls of the compiled wrappers --------------------------------
shapes = [(1, 1), (1, 6), (2, 1), (2, 2), (3, 5), (5, 3), (8, 2), (4, 100),
          (11, 37), (20, 8), (6, 256)]
bins = [1, 2, 3, 7, 32, 100]
for (N, n_time) in shapes:
    original = rng.randn(N, n_time)
    surrogates = rng.randn(N, n_time) * 1.5 + 0.25
    for n_bins in bins:
        attempt(f"mi{N}x{n_time}b{n_bins}", _test_mutual_information,
                original, surrogates, N, n_time, n_bins)
    attempt(f"pc{N}x{n_time}", _test_pearson_correlation,
            original, surrogates, N, n_time)
    # identical data -> maximum sits exactly at the upper histogram edge
    attempt(f"mi-same{N}x{n_time}", _test_mutual_information,
            original, original.copy(), N, n_time, 4)
    # inputs must stay untouched
    feed("orig", original)
    feed("surr", surrogates)

# discrete-valued data (many ties, values exactly on bin edges)
for (N, n_time) in [(3, 12), (6, 9), (2, 40)]:
    original = rng.randint(0, 5, size=(N, n_time)).astype(np.float64)
    surrogates = rng.randint(-2, 9, size=(N, n_time)).astype(np.float64)
    for n_bins in (1, 4, 5, 8, 11):
        attempt(f"mi-int{N}x{n_time}b{n_bins}", _test_mutual_information,
                original, surrogates, N, n_time, n_bins)

# degenerate / special values
const = np.ones((3, 4))
attempt("mi-constant", _test_mutual_information, const, const.copy(), 3, 4, 4)
attempt("mi-empty-N", _test_mutual_information, np.zeros((0, 4)),
        np.zeros((0, 4)), 0, 4, 4)
attempt("mi-empty-T", _test_mutual_information, np.zeros((3, 0)),
        np.zeros((3, 0)), 3, 0, 4)
attempt("pc-empty-N", _test_pearson_correlation, np.zeros((0, 4)),
        np.zeros((0, 4)), 0, 4)
attempt("pc-empty-T", _test_pearson_correlation, np.zeros((3, 0)),
        np.zeros((3, 0)), 3, 0)
attempt("mi-bins0", _test_mutual_information, rng.randn(2, 3), rng.randn(2, 3),
        2, 3, 0)
attempt("mi-bins-neg", _test_mutual_information, rng.randn(2, 3),
        rng.randn(2, 3), 2, 3, -4)
with_inf = rng.randn(3, 6)
with_inf[1, 2] = np.inf
attempt("mi-inf", _test_mutual_information, with_inf, rng.randn(3, 6), 3, 6, 4)
with_nan = rng.randn(3, 6)
with_nan[0, 0] = np.nan
attempt("mi-nan", _test_mutual_information, with_nan, rng.randn(3, 6), 3, 6, 4)
attempt("pc-nan", _test_pearson_correlation, with_nan, rng.randn(3, 6), 3, 6)

# argument errors of the wrappers
good = rng.randn(3, 4)
attempt("err-dtype", _test_mutual_information, good.astype(np.float32), good,
        3, 4, 4)
attempt("err-none", _test_mutual_information, None, good, 3, 4, 4)
attempt("err-none2", _test_mutual_information, good, None, 3, 4, 4)
attempt("err-ndim", _test_mutual_information, good[0], good, 3, 4, 4)
attempt("err-fortran", _test_mutual_information, np.asfortranarray(good),
        good, 3, 4, 4)
attempt("err-str", _test_mutual_information, good, good, "3", 4, 4)
attempt("err-pc-dtype", _test_pearson_correlation, good.astype(np.float32),
        good, 3, 4)
attempt("err-pc-none", _test_pearson_correlation, good, None, 3, 4)

# --- through the public static methods ------------------------------------
for (N, n_time) in [(1, 1), (2, 7), (7, 2), (5, 50), (12, 30)]:
    for dtype in (np.float64, np.float32, np.int64):
        original = (rng.randn(N, n_time) * 20).astype(dtype)
        surrogates = (rng.randn(N, n_time) * 20).astype(dtype)
        attempt(f"api-mi{N}x{n_time}{np.dtype(dtype)}",
                Surrogates.test_mutual_information, original, surrogates)
        attempt(f"api-mi8{N}x{n_time}{np.dtype(dtype)}",
                Surrogates.test_mutual_information, original, surrogates,
                n_bins=8)
        attempt(f"api-pc{N}x{n_time}{np.dtype(dtype)}",
                Surrogates.test_pearson_correlation, original, surrogates)
attempt("api-mismatch", Surrogates.test_mutual_information, rng.randn(3, 4),
        rng.randn(4, 3))
attempt("api-pc-mismatch", Surrogates.test_pearson_correlation,
        rng.randn(3, 4), rng.randn(4, 3))
attempt("api-views", Surrogates.test_mutual_information, rng.randn(9, 4).T,
        rng.randn(4, 18)[:, ::2], 5)
attempt("api-empty", Surrogates.test_mutual_information, np.zeros((0, 0)),
        np.zeros((0, 0)))
attempt("api-bins0", Surrogates.test_mutual_information, rng.randn(3, 4),
        rng.randn(3, 4), 0)

print(H.hexdigest())
