"""Equivalence digest for property C13 (Data / ClimateData windows, phase means,
anomalies).  Run as: PYTHONPATH=<worktree>/src /venv/bin/python equiv.py"""
import hashlib
import warnings

import numpy as np

from pyunicorn.core.data import Data
from pyunicorn.core.geo_grid import GeoGrid
from pyunicorn.climate.climate_data import ClimateData

warnings.simplefilter("ignore")
H = hashlib.sha256()
LOG = []


def put(tag, obj):
    """Feed a deterministic, full-precision description of obj to the digest."""
    if isinstance(obj, np.ndarray):
        a = np.asarray(obj)
        desc = (f"{tag}|{type(obj).__name__}|{a.dtype.str}|{a.shape}|"
                f"C{int(a.flags.c_contiguous)}F{int(a.flags.f_contiguous)}|")
        H.update(desc.encode())
        H.update(np.ascontiguousarray(a).tobytes())
        if isinstance(obj, np.ma.MaskedArray):
            H.update(np.ascontiguousarray(np.ma.getmaskarray(obj)).tobytes())
        LOG.append(desc)
    elif isinstance(obj, dict):
        for k in obj:           # insertion order matters
            put(f"{tag}.{k}", obj[k])
    else:
        desc = f"{tag}|{type(obj).__name__}|{obj!r}"
        H.update(desc.encode())
        LOG.append(desc)


def attempt(tag, fn):
    try:
        return fn()
    except BaseException as e:  # pylint: disable=broad-except
        put(tag + ".exc", type(e).__name__)
        return None


def make_grid(rng, n_time, n_space, t0=0.0, dt=1.0):
    time_seq = t0 + dt * np.arange(n_time)
    lat = rng.uniform(-90, 90, n_space).round(1)
    lon = rng.uniform(-180, 180, n_space).round(1)
    return GeoGrid(time_seq, lat, lon, 2)


def snapshot(tag, d):
    put(tag + ".obs", d.observable())
    put(tag + ".obs_is_attr", d.observable() is d._observable)
    put(tag + ".grid", d.grid.grid())
    put(tag + ".gsize", d.grid.grid_size())
    put(tag + ".window", attempt(tag + ".window", d.window))
    put(tag + ".fullgrid", d._full_grid.grid())
    put(tag + ".silence", d.grid.silence_level)
    if isinstance(d, ClimateData):
        put(tag + ".mut", d._mut_window)
        put(tag + ".cache_state", d.__cache_state__())
        pm = attempt(tag + ".pm", d.phase_mean)
        an = attempt(tag + ".an", d.anomaly)
        if pm is not None:
            put(tag + ".pm", pm)
            put(tag + ".pm_cached", d.phase_mean() is pm)
        if an is not None:
            put(tag + ".an", an)
            put(tag + ".an_cached", d.anomaly() is an)
            put(tag + ".an_is_obs", an is d.observable())
            put(tag + ".an_is_full", an is d._full_observable)
        if pm is not None and an is not None and not d.anomalies:
            tc = d.time_cycle
            for i in range(tc):
                put(f"{tag}.zm{i}", an[i::tc, :].mean(axis=0))
                put(f"{tag}.back{i}", an[i::tc, :] + pm[i, :])


def windows_for(rng, grid):
    g = grid.grid()
    t, la, lo = g["time"], g["lat"], g["lon"]
    b = grid.boundaries()
    ws = []
    # global / degenerate variants
    ws.append(dict(time_min=0., time_max=0., lat_min=0., lat_max=0.,
                   lon_min=0., lon_max=0.))
    ws.append(dict(time_min=float(t[1]), time_max=float(t[-2]), lat_min=5.,
                   lat_max=5., lon_min=-50., lon_max=50.))
    ws.append(dict(time_min=float(t[1]), time_max=float(t[-2]), lat_min=-50.,
                   lat_max=50., lon_min=7., lon_max=7.))
    ws.append(dict(time_min=3., time_max=3., lat_min=-45., lat_max=45.,
                   lon_min=-90., lon_max=90.))
    # exact closed boundaries on sample values
    ws.append(dict(time_min=t[2], time_max=t[-3], lat_min=np.sort(la)[1],
                   lat_max=np.sort(la)[-2], lon_min=np.sort(lo)[1],
                   lon_max=np.sort(lo)[-2]))
    # random windows
    for _ in range(6):
        a, c = np.sort(rng.uniform(t.min() - 2, t.max() + 2, 2))
        l1, l2 = np.sort(rng.uniform(-95, 95, 2))
        o1, o2 = np.sort(rng.uniform(-185, 185, 2))
        ws.append(dict(time_min=float(a), time_max=float(c),
                       lat_min=float(l1), lat_max=float(l2),
                       lon_min=float(o1), lon_max=float(o2)))
    # integer valued bounds, numpy scalar bounds, reversed bounds, NaN bounds
    ws.append(dict(time_min=2, time_max=9, lat_min=-60, lat_max=60,
                   lon_min=-120, lon_max=120))
    ws.append(dict(time_min=np.float32(1), time_max=np.float32(7),
                   lat_min=np.float64(-30), lat_max=np.float64(80),
                   lon_min=np.int64(-100), lon_max=np.int64(170)))
    ws.append(dict(time_min=8., time_max=2., lat_min=-60., lat_max=60.,
                   lon_min=-120., lon_max=120.))
    ws.append(dict(time_min=2., time_max=8., lat_min=60., lat_max=-60.,
                   lon_min=-120., lon_max=120.))
    ws.append(dict(time_min=float("nan"), time_max=float("nan"),
                   lat_min=float("nan"), lat_max=float("nan"),
                   lon_min=-120., lon_max=120.))
    ws.append(dict(time_min=1., time_max=float("nan"), lat_min=-60.,
                   lat_max=60., lon_min=-120., lon_max=120.))
    # full-range but given explicitly
    ws.append(dict(b))
    # malformed windows
    ws.append(dict(time_min=0., time_max=4., lat_min=0., lat_max=1.))
    ws.append(dict(time_max=4., lat_min=0., lat_max=1., lon_min=0.,
                   lon_max=1.))
    ws.append(dict(time_min=0., time_max=0., lat_min=0., lat_max=0.))
    ws.append(dict(time_min=0., time_max=0., lat_min=1., lat_max=0.))
    ws.append(dict(time_min="a", time_max="b", lat_min=-60., lat_max=60.,
                   lon_min=-120., lon_max=120.))
    ws.append(dict(time_min=1., time_max=5., lat_min=None, lat_max=60.,
                   lon_min=-120., lon_max=120.))
    ws.append(None)
    return ws


def run_sequence(tag, d, rng):
    snapshot(tag + ".init", d)
    for k, w in enumerate(windows_for(rng, d._full_grid)):
        t = f"{tag}.w{k}"
        w_before = None if w is None else dict(w)
        attempt(t + ".set", lambda w=w: d.set_window(w))
        if w is not None:
            put(t + ".w_unchanged", list(w.items()) == list(w_before.items()))
        snapshot(t, d)
        if k % 4 == 3:
            attempt(t + ".glob", d.set_global_window)
            snapshot(t + ".glob", d)
    attempt(tag + ".final_glob", d.set_global_window)
    snapshot(tag + ".final", d)


def main():
    rng = np.random.default_rng(20240613)

    # --- plain Data ------------------------------------------------------
    for case, (nt, ns, dtype) in enumerate([(12, 9, "float64"),
                                            (20, 15, "float32"),
                                            (15, 7, "int32")]):
        grid = make_grid(rng, nt, ns)
        obs = (100 * rng.standard_normal((nt, ns))).astype(dtype)
        d = Data(observable=obs, grid=grid, silence_level=2)
        run_sequence(f"D{case}", d, rng)
        put(f"D{case}.full_same", d._full_observable is obs)

    # Data with window passed to the constructor
    grid = make_grid(rng, 14, 8)
    obs = rng.standard_normal((14, 8))
    w = dict(time_min=2., time_max=10., lat_min=-70., lat_max=70.,
             lon_min=-150., lon_max=150.)
    d = attempt("Dw", lambda: Data(observable=obs, grid=grid, window=w,
                                   silence_level=2))
    if d is not None:
        snapshot("Dw", d)

    # fortran ordered, masked and 3D observables
    grid = make_grid(rng, 16, 10)
    obs = np.asfortranarray(rng.standard_normal((16, 10)))
    run_sequence("DF", Data(observable=obs, grid=grid, silence_level=2), rng)
    obs = np.ma.masked_greater(rng.standard_normal((16, 10)), 1.0)
    run_sequence("DM", Data(observable=obs, grid=grid, silence_level=2), rng)
    obs = rng.standard_normal((16, 10, 3))
    run_sequence("D3", Data(observable=obs, grid=grid, silence_level=2), rng)

    # bundled test data
    run_sequence("Dsmall", Data.SmallTestData(), rng)

    # --- ClimateData -----------------------------------------------------
    cases = [(24, 9, 12, "float64", False), (30, 11, 5, "float32", False),
             (23, 6, 4, "float64", False), (24, 9, 12, "float64", True),
             (10, 5, 1, "float64", False), (18, 5, 6, "int64", False),
             (8, 4, 12, "float64", False)]
    for case, (nt, ns, tc, dtype, anom) in enumerate(cases):
        grid = make_grid(rng, nt, ns)
        obs = (10 * rng.standard_normal((nt, ns))).astype(dtype)
        cd = ClimateData(observable=obs, grid=grid, time_cycle=tc,
                         anomalies=anom, silence_level=2)
        run_sequence(f"C{case}", cd, rng)

    # constructor window, odd time_cycle values
    grid = make_grid(rng, 24, 9)
    obs = rng.standard_normal((24, 9))
    cd = attempt("Cw", lambda: ClimateData(
        observable=obs, grid=grid, time_cycle=6, window=w, silence_level=2))
    if cd is not None:
        snapshot("Cw", cd)
    for tc in (0, -3, 12.0, None, "12", np.int64(4), True, 100):
        for anom in (False, True):
            cd = attempt(f"Ctc{tc!r}{anom}", lambda tc=tc, anom=anom:
                         ClimateData(observable=obs, grid=grid, time_cycle=tc,
                                     anomalies=anom, silence_level=2))
            if cd is not None:
                snapshot(f"Ctc{tc!r}{anom}", cd)
                attempt("x", lambda: cd.set_window(w))
                snapshot(f"Ctc{tc!r}{anom}.w", cd)

    # masked / fortran / 3D climate observables
    obs = np.ma.masked_greater(rng.standard_normal((24, 9)), 1.2)
    run_sequence("CM", ClimateData(observable=obs, grid=grid, time_cycle=4,
                                   silence_level=2), rng)
    obs = np.asfortranarray(rng.standard_normal((24, 9)))
    run_sequence("CF", ClimateData(observable=obs, grid=grid, time_cycle=8,
                                   silence_level=2), rng)
    obs = rng.standard_normal((24, 9, 2))
    cd = ClimateData(observable=obs, grid=grid, time_cycle=3, silence_level=2)
    snapshot("C3", cd)
    attempt("C3.set", lambda: cd.set_window(w))
    snapshot("C3.w", cd)

    # bundled climate test data incl. derived selections
    cd = ClimateData.SmallTestData()
    run_sequence("Csmall", cd, rng)
    put("Csmall.isp", attempt("isp", lambda: cd.indices_selected_phases([0, 2])))
    cd.set_window(dict(time_min=0., time_max=0., lat_min=10., lat_max=20.,
                       lon_min=5., lon_max=10.))
    np.random.seed(7)
    put("Csmall.shuf", cd.shuffled_anomaly())
    snapshot("Csmall.end", cd)

    # a subclass overriding set_window / observable: call counting
    class Sub(ClimateData):
        calls = None

        def set_window(self, window):
            self.calls.append(("sw", tuple(window.items())))
            ClimateData.set_window(self, window)

        def observable(self):
            self.calls.append(("obs",))
            return ClimateData.observable(self)

    Sub.calls = []
    grid = make_grid(rng, 12, 5)
    s = Sub(observable=rng.standard_normal((12, 5)), grid=grid, time_cycle=3,
            silence_level=2)
    s.set_global_window()
    s.phase_mean()
    s.anomaly()
    s.anomalies = True
    s.set_window(w)
    s.anomaly()
    put("Sub.calls", repr(Sub.calls))
    put("Sub.mut", s._mut_window)

    print("entries:", len(LOG))
    print("digest:", H.hexdigest())


main()
