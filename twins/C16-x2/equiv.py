"""Equivalence digest for twin_2 (make_event_matrix threshold logic)."""
import hashlib
import warnings

import numpy as np

from pyunicorn.eventseries import EventSeries

H = hashlib.sha256()


def put(tag, val):
    if isinstance(val, np.ndarray):
        H.update(f"{tag}|{val.dtype}|{val.shape}|".encode())
        H.update(np.ascontiguousarray(val).tobytes())
    else:
        H.update(f"{tag}|{type(val).__name__}|{val!r}".encode())


def attempt(tag, fun):
    with warnings.catch_warnings(record=True) as wlist:
        warnings.simplefilter("always")
        try:
            put(tag, fun())
        except Exception as exc:  # pylint: disable=broad-except
            put(tag + "!exc", (type(exc).__name__, str(exc)))
    put(tag + "!warn", [(w.category.__name__, str(w.message))
                        for w in wlist])


rng = np.random.RandomState(160216)


def datasets():
    yield "gauss", rng.randn(30, 4)
    yield "ints", rng.randint(0, 5, size=(25, 3))          # many ties
    yield "ties", np.round(rng.rand(40, 5), 1)
    yield "onecol", rng.randn(12, 1)
    yield "wide", rng.randn(3, 6)
    yield "const", np.ones((8, 2))
    d = rng.randn(20, 3)
    d[3, 1] = np.nan
    yield "nan", d
    d = rng.randn(15, 3)
    d[2, 0], d[4, 2] = np.inf, -np.inf
    yield "inf", d
    yield "f32", rng.randn(18, 3).astype(np.float32)
    yield "fortran", np.asfortranarray(rng.randn(14, 4))
    yield "view", rng.randn(40, 8)[::2, 1::2]
    yield "threeD1", rng.randn(9, 3, 1)
    yield "threeD2", rng.randn(9, 3, 2)
    yield "oneD", rng.randn(9)
    yield "empty_vars", np.zeros((5, 0))
    yield "list", rng.randn(6, 2).tolist()


def params(n):
    yield {}
    yield dict(threshold_method='quantile', threshold_values=0.9,
               threshold_types='above')
    yield dict(threshold_method='quantile', threshold_values=0.1,
               threshold_types='below')
    yield dict(threshold_method='quantile', threshold_values=0.3)
    yield dict(threshold_method='quantile', threshold_values=0.5)
    yield dict(threshold_method='quantile', threshold_types='below')
    yield dict(threshold_method='quantile', threshold_values=1.5)
    yield dict(threshold_method='quantile', threshold_values=-0.1)
    yield dict(threshold_method='quantile', threshold_values=0)
    yield dict(threshold_method='quantile', threshold_values=1)
    yield dict(threshold_method='value', threshold_values=0.2,
               threshold_types='above')
    yield dict(threshold_method='value', threshold_values=0.2)
    yield dict(threshold_method='value', threshold_values=2,
               threshold_types='below')
    yield dict(threshold_method='value')
    yield dict(threshold_method='value', threshold_types='below')
    yield dict(threshold_method='value', threshold_values=1e9)
    yield dict(threshold_method='value', threshold_values=-1e9)
    yield dict(threshold_method='median')
    yield dict(threshold_method='quantile', threshold_values='a')
    yield dict(threshold_method='quantile', threshold_types='between')
    yield dict(threshold_method=['quantile'] * (n + 1))
    yield dict(threshold_values=[0.5] * (n + 1))
    yield dict(threshold_types=['above'] * (n + 1))
    yield dict(threshold_method=[['quantile'] * n] * 2)
    yield dict(threshold_values=True)
    if n >= 1:
        meth = [('quantile', 'value')[k % 2] for k in range(n)]
        typ = [('above', 'below')[(k // 2) % 2] for k in range(n)]
        yield dict(threshold_method=meth)
        yield dict(threshold_method=meth, threshold_types=typ)
        yield dict(threshold_method=meth,
                   threshold_values=[0.1 + 0.8 * k / n for k in range(n)],
                   threshold_types=typ)
        yield dict(threshold_method=meth,
                   threshold_values=np.linspace(0.2, 0.7, n))
        yield dict(threshold_method=np.array(meth),
                   threshold_values=[0.5] * n,
                   threshold_types=np.array(typ))
        yield dict(threshold_method=meth[:-1] + ['bogus'])
        yield dict(threshold_types=typ[:-1] + ['bogus'])
        yield dict(threshold_method='value',
                   threshold_values=[0.0] * (n - 1) + [1e9])
        yield dict(threshold_method='quantile',
                   threshold_values=[0.5] * (n - 1) + [1.5])
        yield dict(threshold_values=[0.5] * (n - 1) + ['x'])
        yield dict(threshold_values=[1] * n)


for name, data in datasets():
    try:
        nvars = np.shape(data)[1]
    except IndexError:
        nvars = 2
    for k, kw in enumerate(params(nvars)):
        before = np.array(data, copy=True) if isinstance(data, np.ndarray) \
            else None
        kw_before = repr(kw)
        attempt(f"{name}/{k}",
                lambda: EventSeries.make_event_matrix(data, **kw))
        if before is not None:
            put(f"{name}/{k}/input-untouched",
                bool(np.array_equal(before, data, equal_nan=True)))
        put(f"{name}/{k}/kw-untouched", kw_before == repr(kw))

# constructor path (axis swap + thresholding + analysis on the result)
for k in range(6):
    data = rng.randn(*[(40, 3), (3, 40), (20, 5), (5, 20), (10, 10),
                       (12, 2)][k])
    for kw in [dict(threshold_method='quantile', threshold_values=0.8,
                    threshold_types='above'),
               dict(threshold_method='value', threshold_values=0.0),
               dict(threshold_method='quantile')]:
        def build():
            es = EventSeries(data, taumax=2.0, **kw)
            return np.concatenate([
                es.get_event_matrix().ravel(),
                es.event_series_analysis(method='ES').ravel(),
                es.event_series_analysis(method='ECA').ravel()])
        attempt(f"ctor{k}{sorted(kw.items())}", build)

print(H.hexdigest())
