"""Digest of ClimateNetwork thresholding / density behaviour (property C09)."""
import contextlib
import hashlib
import io
import warnings

import numpy as np

from pyunicorn.core import GeoGrid
from pyunicorn.climate import ClimateNetwork, ClimateData, TsonisClimateNetwork

warnings.simplefilter("ignore")
H = hashlib.sha256()


def put(*items):
    for x in items:
        if isinstance(x, np.ndarray):
            H.update(repr((x.dtype.str, x.shape)).encode())
            H.update(np.ascontiguousarray(x).tobytes())
        else:
            H.update(repr(x).encode())
        H.update(b"|")


def attempt(label, fn):
    out = io.StringIO()
    try:
        with contextlib.redirect_stdout(out):
            res = fn()
        put(label, "ok", res)
    except Exception as e:  # pylint: disable=broad-except
        put(label, "exc", type(e).__name__)
    put(out.getvalue())


def make_grid(rng, n):
    lat = rng.uniform(-80, 80, n)
    lon = rng.uniform(-170, 170, n)
    return GeoGrid(time_seq=np.arange(5.0), lat_seq=lat, lon_seq=lon,
                   silence_level=2)


def state(net):
    return (net.threshold(), net.non_local(), net.N, net.n_links,
            net.link_density, net.directed, net._mut_clim,
            tuple("GRID" if c is net.grid else c
                  for c in net.__cache_state__()), net.node_weight_type, net.silence_level,
            net.adjacency, net.adjacency.sum(),
            net.similarity_measure(), net.node_weights,
            sorted(k for k in vars(net) if "thresh" in k or "local" in k
                   or "simil" in k or "mut_clim" in k))


def sim_matrix(rng, n, kind):
    m = rng.uniform(-1, 1, (n, n))
    if kind == "sym":
        m = (m + m.T) / 2
    elif kind == "ties":
        m = np.round((m + m.T) / 2, 1)
    elif kind == "int":
        m = rng.integers(-3, 4, (n, n))
    elif kind == "nan":
        m = (m + m.T) / 2
        m[0, -1] = m[-1, 0] = np.nan
    elif kind == "f32":
        m = m.astype("float32")
    return m


rng = np.random.default_rng(909)

# --- construction variants -------------------------------------------------
for n in (1, 2, 5, 9, 14):
    grid = make_grid(rng, n)
    for kind in ("sym", "asym", "ties", "int", "nan", "f32"):
        S = sim_matrix(rng, n, kind)
        S0 = S.copy()
        for directed in (False, True):
            for non_local in (False, True):
                for sl in (0, 2):
                    for kw in ({"threshold": 0.3}, {"link_density": 0.4},
                               {"threshold": 0.0, "link_density": 0.9},
                               {"threshold": -1.0}, {"link_density": 0.0},
                               {"link_density": 1.0}, {"link_density": 1.3},
                               {"link_density": -0.2}, {}):
                        attempt(("ctor", n, kind, directed, non_local, sl,
                                 sorted(kw.items())),
                                lambda: state(ClimateNetwork(
                                    grid, S, non_local=non_local,
                                    directed=directed, silence_level=sl,
                                    node_weight_type=(None, "surface",
                                                      "irrigation")[n % 3],
                                    **kw)))
        put(np.array_equal(S, S0, equal_nan=True))

# --- call sequences on one object -----------------------------------------
for n, kind, sl in ((6, "sym", 2), (11, "ties", 0), (8, "asym", 1),
                    (7, "nan", 2)):
    grid = make_grid(rng, n)
    S = sim_matrix(rng, n, kind)
    holder = {}

    def build():
        holder["net"] = ClimateNetwork(grid, S, threshold=0.25,
                                       directed=(kind == "asym"),
                                       silence_level=sl)
        return state(holder["net"])
    attempt(("seq-build", n, kind), build)
    net = holder["net"]
    steps = [
        ("thr", lambda: net.set_threshold(0.5)),
        ("thr-np", lambda: net.set_threshold(np.float32(0.4))),
        ("ld", lambda: net.set_link_density(0.3)),
        ("nl-on", lambda: net.set_non_local(True)),
        ("nl-on-again", lambda: net.set_non_local(True)),
        ("ld2", lambda: net.set_link_density(0.55)),
        ("nl-int", lambda: net.set_non_local(1)),
        ("regen", net._regenerate_network),
        ("nl-off", lambda: net.set_non_local(False)),
        ("nl-zero", lambda: net.set_non_local(0)),
        ("ld-bad", lambda: net.set_link_density(2.5)),
        ("ld-neg", lambda: net.set_link_density(-3)),
        ("thr-arr", lambda: net.set_threshold(np.full((n, n), 0.2))),
        ("thr-badarr", lambda: net.set_threshold(np.zeros(3))),
        ("thr-str", lambda: net.set_threshold("x")),
        ("thr-none", lambda: net.set_threshold(None)),
        ("regen2", net._regenerate_network),
        ("thr-back", lambda: net.set_threshold(0.1)),
        ("nl-arr", lambda: net.set_non_local(np.array([True, False]))),
        ("str", lambda: str(net)),
        ("tfld", lambda: [net.threshold_from_link_density(x) for x in
                          (0, 0.1, 0.25, 0.5, 0.75, 0.99, 1.0, 1.0 + 1e-9,
                           np.float32(0.3))]),
        ("tfld-bad", lambda: net.threshold_from_link_density(-0.5)),
        ("tfld-str", lambda: net.threshold_from_link_density("a")),
        ("ldf", lambda: net.link_density_function(4)),
    ]
    for name, fn in steps:
        attempt(("seq", n, kind, name), fn)
        attempt(("seq-state", n, kind, name), lambda: state(net))
    # monotonicity sweep
    for t in np.linspace(-0.1, 1.1, 13):
        attempt(("sweep", n, kind, float(t)),
                lambda: (net.set_threshold(t), state(net))[1])
    for d in np.linspace(0, 1, 11):
        attempt(("sweep-ld", n, kind, float(d)),
                lambda: (net.set_link_density(d), state(net))[1])
    # deleted similarity measure
    del net._similarity_measure
    for name, fn in (("thr", lambda: net.set_threshold(0.5)),
                     ("ld", lambda: net.set_link_density(0.5)),
                     ("nl", lambda: net.set_non_local(not net.non_local())),
                     ("tfld", lambda: net.threshold_from_link_density(0.5)),
                     ("regen", net._regenerate_network)):
        attempt(("deleted", n, kind, name), fn)
        attempt(("deleted-state", n, kind, name),
                lambda: (net.threshold(), net.non_local(), net.n_links,
                         net._mut_clim, net.adjacency))

# --- private builders called directly --------------------------------------
grid = make_grid(rng, 6)
for sl in (0, 2):
    with contextlib.redirect_stdout(io.StringIO()):
        net = ClimateNetwork(grid, sim_matrix(rng, 6, "sym"), threshold=0.3,
                             silence_level=sl)
    cases = {
        "square": rng.uniform(0, 1, (6, 6)),
        "small": rng.uniform(0, 1, (3, 3)),
        "empty": np.zeros((0, 0)),
        "one": np.ones((1, 1)),
        "tall": rng.uniform(0, 1, (6, 4)),
        "wide": rng.uniform(0, 1, (4, 6)),
        "vec": rng.uniform(0, 1, 6),
        "cube": rng.uniform(0, 1, (6, 6, 2)),
        "int": rng.integers(0, 3, (6, 6)),
        "nan": np.full((6, 6), np.nan),
        "f32": rng.uniform(0, 1, (6, 6)).astype("float32"),
        "fortran": np.asfortranarray(rng.uniform(0, 1, (6, 6))),
        "list": [[0.1, 0.9], [0.9, 0.1]],
        "scalar": np.float64(0.7),
    }
    for cname, M in cases.items():
        for thr in (0.5, 0.0, -1, 1.0, np.float32(0.25), np.nan):
            attempt(("cta", sl, cname, repr(thr)),
                    lambda: net._calculate_threshold_adjacency(M, thr))
            attempt(("cnla", sl, cname, repr(thr)),
                    lambda: net._calculate_non_local_adjacency(M, thr))
        for a, d_min in ((20, 0.05), (30, 0.2), (0, 0.0), (1.5, 1.0),
                         (-4, 0.3)):
            attempt(("cnla-ad", sl, cname, a, d_min),
                    lambda: net._calculate_non_local_adjacency(
                        M, 0.4, a=a, d_min=d_min))
            attempt(("cnla-kw", sl, cname, a, d_min),
                    lambda: net._calculate_non_local_adjacency(
                        similarity_measure=M, threshold=0.4, d_min=d_min,
                        a=a))
    attempt(("cta-kw", sl), lambda: net._calculate_threshold_adjacency(
        threshold=0.2, similarity_measure=cases["square"]))
    attempt(("state-after", sl), lambda: state(net))

# --- a subclass that regenerates through ClimateNetwork.__init__ -----------
data = ClimateData.SmallTestData()
for kw in ({"threshold": 0.5}, {"link_density": 0.5}, {}):
    holder = {}

    def build_t():
        holder["t"] = TsonisClimateNetwork(data, silence_level=2,
                                           winter_only=False, **kw)
        return state(holder["t"])
    attempt(("tsonis", sorted(kw.items())), build_t)
    if "t" in holder:
        t = holder["t"]
        for name, fn in (("lag", lambda: t.set_winter_only(False)),
                         ("nl", lambda: t.set_non_local(True)),
                         ("ld", lambda: t.set_link_density(0.3)),
                         ("lag2", lambda: t.set_winter_only(False)),
                         ("win", lambda: t.set_winter_only(True))):
            attempt(("tsonis-step", name), fn)
            attempt(("tsonis-state", name), lambda: state(t))

attempt("small", lambda: state(ClimateNetwork.SmallTestNetwork()))
print(H.hexdigest())
