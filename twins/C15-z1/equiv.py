"""Deterministic digest of the surrogate generators (property C15).

Run as  PYTHONPATH=<worktree>/src /venv/bin/python equiv.py
"""
import hashlib
import os
import random as pyrandom

import numpy as np

from pyunicorn.timeseries.surrogates import Surrogates
from pyunicorn.timeseries.recurrence_plot import RecurrencePlot
from pyunicorn.timeseries._ext import numerics as tnum
from pyunicorn.core._ext.types import ADJ, DEGREE, DFIELD, LAG, NODE

H = hashlib.sha256()


def feed(tag, obj):
    H.update(repr(tag).encode())
    if isinstance(obj, tuple):
        for k, o in enumerate(obj):
            feed((tag, k), o)
    elif isinstance(obj, np.ndarray):
        H.update(str(obj.dtype).encode())
        H.update(repr(obj.shape).encode())
        H.update(repr(obj.flags.c_contiguous).encode())
        H.update(np.ascontiguousarray(obj).tobytes())
    else:
        H.update(repr(obj).encode())


def attempt(tag, fn):
    try:
        feed(tag, fn())
    except Exception as e:  # pylint: disable=broad-except
        feed(tag, "EXC:" + type(e).__name__)
        if os.environ.get("EQUIV_DEBUG"):
            print("EXC", tag, type(e).__name__, e)


def seed(s):
    np.random.seed(s)
    pyrandom.seed(s)


def datasets():
    rng = np.random.RandomState(4711)
    t = np.arange(120)
    yield "sines", Surrogates.SmallTestData().original_data[:, :120].copy()
    yield "gauss_even", rng.randn(3, 64)
    yield "gauss_odd", rng.randn(4, 51)
    yield "ties", rng.randint(0, 4, size=(3, 40)).astype(float)
    yield "ints", rng.randint(-5, 6, size=(2, 33))
    yield "float32", rng.randn(2, 30).astype(np.float32)
    yield "fortran", np.asfortranarray(rng.randn(3, 25))
    yield "constant", np.ones((2, 16))
    yield "single", rng.randn(1, 9)
    yield "short", rng.randn(2, 2)
    nan = rng.randn(2, 20)
    nan[0, 3] = np.nan
    yield "nan", nan
    yield "periodic", np.vstack([np.sin(2 * np.pi * t / 12.),
                                 np.round(np.cos(2 * np.pi * t / 8.), 6)])
    yield "empty_rows", np.zeros((0, 10))


for name, data in datasets():
    for sl in (2,):
        seed(17)
        S = Surrogates(original_data=data.copy(), silence_level=sl)
        attempt((name, "white"), S.white_noise_surrogates)
        attempt((name, "white2"), S.white_noise_surrogates)
        attempt((name, "corr"), S.correlated_noise_surrogates)
        attempt((name, "corr2"), S.correlated_noise_surrogates)
        attempt((name, "fft"), S.original_data_fft)
        attempt((name, "aaft"), S.AAFT_surrogates)
        for n_it in (0, 1, 3):
            for out in ("true_amplitudes", "true_spectrum", "both", "other",
                        None):
                attempt((name, "raaft", n_it, out),
                        lambda n_it=n_it, out=out:
                        S.refined_AAFT_surrogates(n_it, out))
        attempt((name, "raaft_default"),
                lambda: S.refined_AAFT_surrogates(2))
        attempt((name, "raaft_bad"),
                lambda: S.refined_AAFT_surrogates("x"))
        feed((name, "orig_after"), S.original_data)
        # normalisation invalidates the memoised FFT
        if data.dtype.kind == "f" and data.shape[0]:
            S.normalize_original_data()
            attempt((name, "corr_norm"), S.correlated_noise_surrogates)
            attempt((name, "raaft_norm"),
                    lambda: S.refined_AAFT_surrogates(2, "both"))
            attempt((name, "white_norm"), S.white_noise_surrogates)
        # twin surrogates (embedding based)
        for (dim, delay, thr, md) in ((1, 1, 0.2, 7), (2, 1, 0.3, 3),
                                      (3, 2, 0.8, 7), (2, 3, 0.05, 0),
                                      (1, 1, 10.0, 1), (2, 1, 0.3, -2)):
            seed(23)
            attempt((name, "twin_s", dim, delay, thr, md),
                    lambda: S.twin_surrogates(dim, delay, thr, md))
            attempt((name, "twins_s", dim, delay, thr, md),
                    lambda: S.twins(thr, md))
            attempt((name, "twin_s_again", dim, delay, thr, md),
                    lambda: S.twin_surrogates(dim, delay, thr, md))
            feed((name, "emb"), S.embedding)
            feed((name, "mut"), (S._mut_embedding, S._mut_data))

# verbose variants (messages go to stdout; digest printed last)
seed(5)
S = Surrogates(original_data=np.random.RandomState(1).randn(2, 30),
               silence_level=0)
attempt("v_white", S.white_noise_surrogates)
attempt("v_corr", S.correlated_noise_surrogates)
attempt("v_aaft", S.AAFT_surrogates)
attempt("v_raaft", lambda: S.refined_AAFT_surrogates(2, "both"))
attempt("v_twin", lambda: S.twin_surrogates(2, 1, 0.5, 2))

# object whose data was swapped after construction (stale N / n_time)
seed(6)
S = Surrogates(original_data=np.random.RandomState(2).randn(3, 20),
               silence_level=2)
S.original_data = np.random.RandomState(3).randn(2, 20)
attempt("swap_white", S.white_noise_surrogates)
attempt("swap_corr", S.correlated_noise_surrogates)
attempt("swap_aaft", S.AAFT_surrogates)
attempt("swap_raaft", lambda: S.refined_AAFT_surrogates(1, "both"))
S.original_data = np.random.RandomState(3).randn(4, 20)
attempt("swap2_white", S.white_noise_surrogates)
attempt("swap2_corr", S.correlated_noise_surrogates)
attempt("swap2_aaft", S.AAFT_surrogates)
attempt("swap2_raaft", lambda: S.refined_AAFT_surrogates(1, "both"))

# recurrence plot based twins; the kernel reseeds the `random` module from
# the OS, so pin that for a reproducible digest
_orig_seed = pyrandom.seed
for name, ts, kw in (
        ("rp_sine", np.sin(np.arange(150) * np.pi / 10.),
         dict(dim=2, tau=3, threshold=0.3)),
        ("rp_sine_rr", np.sin(np.arange(90) * np.pi / 6.),
         dict(dim=1, tau=1, recurrence_rate=0.2)),
        ("rp_gauss", np.random.RandomState(9).randn(60),
         dict(dim=3, tau=1, threshold=1.5, metric="euclidean")),
        ("rp_round", np.round(np.sin(np.arange(80) * np.pi / 4.), 3),
         dict(dim=1, tau=1, threshold=0.01, metric="manhattan")),
        ("rp_short", np.arange(5.), dict(dim=1, tau=1, threshold=0.5))):
    rp = RecurrencePlot(ts, silence_level=2, **kw)
    for md in (7, 1, 0, -3):
        attempt((name, "twins_r", md), lambda: rp.twins(md))
        for ns in (1, 3, 0):
            pyrandom.seed = lambda *a, **k: _orig_seed(99)
            try:
                attempt((name, "twin_r", md, ns),
                        lambda: rp.twin_surrogates(ns, md))
            finally:
                pyrandom.seed = _orig_seed

# direct kernel calls
rs = np.random.RandomState(12)
for T, thr, md in ((12, 0.4, 1), (30, 0.9, 2), (1, 0.5, 0), (8, 100., 0)):
    emb = np.round(rs.rand(2, T, 2), 1)
    R = np.empty((T, T), dtype=ADJ)
    nR = np.empty(T, dtype=DEGREE)
    tw = []
    attempt(("k_twins_s", T), lambda: tnum._twins_s(
        2, T, 2, thr, md, emb.astype(DFIELD), R, nR, tw))
    feed(("k_twins_s_out", T), (repr(tw), R, nR))
    seed(3)
    attempt(("k_walk_s", T), lambda: tnum._twin_surrogates_s(
        2, T, tw, emb[:, :, 0].astype(DFIELD).copy()))
    Rr = (rs.rand(T, T) < 0.5).astype(LAG)
    Rr = np.ascontiguousarray(Rr | Rr.T)
    Rr[:, T // 2] = Rr[:, 0]
    Rr[T // 2, :] = Rr[0, :]
    nRr = Rr.sum(axis=0).astype(NODE)
    twr = []
    attempt(("k_twins_r", T), lambda: tnum._twins_r(md, T, Rr, nRr, twr))
    feed(("k_twins_r_out", T), repr(twr))

print("DIGEST", H.hexdigest())
