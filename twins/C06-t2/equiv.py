"""Equivalence digest for twin_2: InteractingNetworks general average path
length / closeness helpers (temporary in-place edits with restore)."""
import hashlib
import io
import contextlib
import warnings

import numpy as np

from pyunicorn.core.interacting_networks import InteractingNetworks

warnings.simplefilter("ignore")
H = hashlib.sha256()


def feed(tag, value):
    H.update(tag.encode())
    if isinstance(value, BaseException):
        H.update(("EXC:" + type(value).__name__).encode())
        return
    a = np.asarray(value)
    H.update(str(a.dtype).encode())
    H.update(str(a.shape).encode())
    H.update(np.ascontiguousarray(a).tobytes())


def call(tag, f, *args, **kwargs):
    out = io.StringIO()
    try:
        with contextlib.redirect_stdout(out):
            res = f(*args, **kwargs)
    except Exception as e:  # pylint: disable=broad-except
        res = e
    feed(tag, res)
    H.update(out.getvalue().encode())
    return res


def random_net(rng, N, p, directed, blocks, silence):
    A = (rng.random((N, N)) < p).astype(int)
    if blocks > 1:
        lab = rng.integers(0, blocks, N)
        A *= (lab[:, None] == lab[None, :])
    np.fill_diagonal(A, 0)
    if not directed:
        A = np.triu(A, 1)
        A = A + A.T
    net = InteractingNetworks(adjacency=A, directed=directed,
                              silence_level=silence)
    W = rng.random((N, N)) * 3 + 0.1
    Z = W.copy()
    Z[rng.integers(0, N, 3), :] = 0
    Z[:, rng.integers(0, N, 3)] = 0
    if not directed:
        W = np.triu(W, 1) + np.triu(W, 1).T
        Z = np.minimum(Z, Z.T)
    net.set_link_attribute("w", W)
    net.set_link_attribute("z", Z)
    return net


def exercise(tag, net, rng):
    N = net.N
    perm = rng.permutation(N)
    h = max(1, N // 2)
    l1, l2 = [int(i) for i in perm[:h]], [int(i) for i in perm[h:]]
    selections = [(l1, l2), (l2, l1), (list(range(N)), list(range(N))),
                  (slice(0, h), slice(h, N)),      # views on the cache!
                  (slice(None), slice(None)),
                  (l1, []), ([], l2)]
    for la in (None, "w", "z", "missing"):
        for s, (a, b) in enumerate(selections):
            t = f"{tag}/{la}/{s}"
            call(t + "/pl0", net.path_lengths, la)
            call(t + "/capl", net.cross_average_path_length, a, b, la)
            call(t + "/pl1", net.path_lengths, la)
            call(t + "/iapl", net.internal_average_path_length, a, la)
            call(t + "/pl2", net.path_lengths, la)
            call(t + "/cclo", net.cross_closeness, a, b, la)
            call(t + "/pl3", net.path_lengths, la)
            call(t + "/iclo", net.internal_closeness, b, la)
            call(t + "/pl4", net.path_lengths, la)
            call(t + "/iapl2", net.internal_average_path_length, b, la)
            call(t + "/capl2", net.cross_average_path_length, b, a, la)
            call(t + "/pl5", net.path_lengths, la)
    net.cache_clear()


def direct(tag, net, rng):
    """call the private helpers on caller-owned arrays"""
    for shape in ((1, 1), (1, 4), (4, 1), (3, 3), (5, 7), (0, 3), (3, 0)):
        for kind in ("float", "inf", "int", "f32", "zero", "view", "ro",
                     "1d", "obj"):
            P = rng.random(shape) * 4
            P[rng.random(shape) < 0.3] = np.inf
            if kind == "inf":
                P[:] = np.inf
            elif kind == "int":
                P = rng.integers(0, 5, shape)
            elif kind == "f32":
                P = P.astype(np.float32)
            elif kind == "zero":
                P[:] = 0
            elif kind == "view":
                P = np.asfortranarray(P)[::-1]
            elif kind == "ro":
                P.setflags(write=False)
            elif kind == "1d":
                P = P.ravel()
            elif kind == "obj":
                P = P.astype(object)
            for internal in (False, True):
                t = f"{tag}/{shape}/{kind}/{internal}"
                call(t + "/apl",
                     net._calculate_general_average_path_length, P,
                     internal=internal)
                feed(t + "/P1", P.astype(float) if kind != "obj" else 0)
                call(t + "/clo", net._calculate_general_closeness, P,
                     internal=internal)
                feed(t + "/P2", P.astype(float) if kind != "obj" else 0)
    call(tag + "/default1",
         InteractingNetworks._calculate_general_average_path_length,
         np.array([[0., np.inf], [1., 0.]]))
    call(tag + "/default2", net._calculate_general_closeness,
         np.array([[0., np.inf], [1., 0.]]))
    call(tag + "/list", net._calculate_general_closeness, [[0., 1.]])
    call(tag + "/list2", net._calculate_general_average_path_length,
         [[0., 1.]])


rng = np.random.default_rng(60606)
k = 0
for N in (2, 3, 6, 11, 24):
    for p in (0.0, 0.2, 0.6):
        for directed in (False, True):
            for blocks in (1, 3):
                k += 1
                net = random_net(rng, N, p, directed, blocks,
                                 silence=2 if k % 4 else 0)
                exercise(f"n{k}", net, rng)
                if k % 6 == 0:
                    direct(f"d{k}", net, rng)

net = InteractingNetworks.SmallTestNetwork()
exercise("small", net, rng)
direct("dsmall", net, rng)

with np.errstate(all="raise"):
    net = random_net(rng, 7, 0.3, False, 2, silence=2)
    exercise("raise", net, rng)
    direct("draise", net, rng)

print(H.hexdigest())
