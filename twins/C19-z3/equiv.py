"""
Equivalence digest for property C19 (distributed computation returns the
serial result).

Run as:  PYTHONPATH=<worktree>/src /venv/bin/python equiv.py

Exercises
  A. the compiled chunk kernels directly, on many (start_i, end_i) cuts,
     including empty cuts and malformed arguments (exception types/messages);
  B. the Python chunk kernel Network._mpi_nsi_arenas_betweenness directly
     (both stopping modes, both exclude_neighbors settings, error paths);
  C. the master loops of newman_betweenness, nsi_newman_betweenness and
     nsi_arenas_betweenness: serial, and distributed over an emulated set of
     MPI slaves (a fake communicator that executes submitted calls and hands
     the results back FIFO per slave), for several communicator sizes and
     verbosity settings, including the printed progress output;
  D. the serial submit_call / get_result / get_next_result protocol;
  E. nsi_betweenness for target subsets (the batch worker);
  F. the master loops on larger sparse components for many communicator
     sizes, recording the chunk bounds and slice shapes each slave receives.
and prints a sha256 over everything.
"""
import contextlib
import hashlib
import io
import os
import sys

import numpy as np
import scipy.sparse as sp

import pyunicorn                                      # noqa: F401
from pyunicorn.core.network import Network
from pyunicorn.core._ext.types import to_cy, ADJ, DFIELD, DWEIGHT, MASK
from pyunicorn.core._ext.numerics import (
    _mpi_newman_betweenness, _mpi_nsi_newman_betweenness)
from pyunicorn.utils import mpi

H = hashlib.sha256()
LOG = []


def put(tag, obj):
    if isinstance(obj, np.ndarray):
        s = f"{obj.dtype}{obj.shape}" + obj.tobytes().hex()
    elif isinstance(obj, (tuple, list)):
        for k, o in enumerate(obj):
            put(f"{tag}[{k}]", o)
        return
    else:
        s = repr(obj)
    H.update((tag + "=" + s + "\n").encode())
    LOG.append(tag)
    if os.environ.get("EQUIV_DUMP"):
        print(tag + "=" + s[:200], file=sys.__stdout__)


def attempt(tag, fn, *args, **kwargs):
    out, err = io.StringIO(), io.StringIO()
    try:
        with contextlib.redirect_stdout(out), contextlib.redirect_stderr(err):
            res = fn(*args, **kwargs)
        put(tag, res)
    except BaseException as e:                        # incl. SystemExit
        put(tag + ":exc", (type(e).__name__, str(e)))
    lines = [ln for ln in out.getvalue().splitlines()
             if not ln.startswith("...took")]
    put(tag + ":out", "\n".join(lines))
    put(tag + ":err", err.getvalue())


# -----------------------------------------------------------------------------
# emulated MPI slaves
# -----------------------------------------------------------------------------

class FakeComm:
    """Executes what the master sends and returns results FIFO per slave."""

    def __init__(self, size):
        self.size, self.rank = size, 0
        self.boxes = {r: [] for r in range(size)}
        self.trace = []

    def send(self, msg, dest):
        name_to_call, args, kwargs, module, time_est = msg
        # chunk bounds as seen by the slave: (start_i, end_i)
        bounds = tuple(int(a) for a in (
            args[5:7] if name_to_call.startswith("Network.") else args[-2:])
            if isinstance(a, (int, np.integer)))
        self.trace.append((name_to_call, dest, float(time_est), bounds,
                           tuple(getattr(a, "shape", None) for a in args)))
        fn = eval(name_to_call, sys.modules[module].__dict__)
        res = fn(*args, **kwargs)
        n = len([t for t in self.trace if t[1] == dest])
        self.boxes[dest].append(
            (res, {"id": None, "rank": dest, "this_time": 0.0,
                   "time_over_est": 0.0, "n_processed": n,
                   "total_time": 0.0}))

    def recv(self, source):
        return self.boxes[source].pop(0)


SERIAL = dict(available=mpi.available, size=mpi.size)


def set_mpi(size):
    """size None -> serial; otherwise emulate size-1 slaves."""
    n = 1 if size is None else size
    mpi.total_time_est = np.zeros(n)
    mpi.total_time_est[0] = np.inf
    mpi.queue = []
    mpi.assigned = {}
    mpi.slave_queue = [[] for _ in range(n)]
    mpi.n_processed = np.zeros(n).astype("int")
    mpi.total_time = np.zeros(n)
    del mpi.stats[:]
    mpi.results = {}
    if size is None:
        mpi.available, mpi.size, mpi.n_slaves = False, 1, 0
        mpi.comm = None
    else:
        mpi.available, mpi.size, mpi.n_slaves = True, size, size - 1
        mpi.comm = FakeComm(size)


def mpi_state(tag):
    put(tag + ":queue", list(mpi.queue))
    put(tag + ":assigned", sorted(mpi.assigned.items(), key=repr))
    put(tag + ":slave_queue", [list(q) for q in mpi.slave_queue])
    put(tag + ":est", np.asarray(mpi.total_time_est, dtype=float)[1:])
    put(tag + ":n_processed", np.asarray(mpi.n_processed))
    put(tag + ":n_stats", len(mpi.stats))
    if mpi.comm is not None:
        put(tag + ":trace", list(mpi.comm.trace))


# -----------------------------------------------------------------------------
# inputs
# -----------------------------------------------------------------------------

def random_adjacency(rng, N, p, blocks=1, isolated=0):
    A = np.zeros((N, N), dtype=int)
    bounds = np.linspace(0, N - isolated, blocks + 1).astype(int)
    for b in range(blocks):
        lo, hi = bounds[b], bounds[b + 1]
        n = hi - lo
        U = np.triu((rng.random((n, n)) < p).astype(int), 1)
        for i in range(n - 1):                       # keep block connected
            U[i, i + 1] = 1
        A[lo:hi, lo:hi] = U + U.T
    perm = rng.permutation(N)
    return A[np.ix_(perm, perm)]


def networks():
    rng = np.random.default_rng(20191)
    specs = [(12, .4, 1, 0), (23, .25, 1, 0), (31, .2, 2, 1),
             (45, .15, 1, 0), (52, .12, 3, 2), (2, 1., 1, 0), (5, .5, 1, 3)]
    for N, p, blocks, iso in specs:
        A = random_adjacency(rng, N, p, blocks, iso)
        w = rng.uniform(0.3, 2.5, N)
        yield f"N{N}b{blocks}i{iso}", A, w


def cuts(rng, N):
    yield 0, N
    yield 0, 0
    yield N, N
    for step in (1, 3, 7, N - 1 or 1):
        for s in range(0, N, step):
            yield s, min(s + step, N)
    for _ in range(4):
        a, b = sorted(rng.integers(0, N + 1, 2))
        yield int(a), int(b)


# -----------------------------------------------------------------------------
# A. compiled chunk kernels
# -----------------------------------------------------------------------------

def section_a():
    rng = np.random.default_rng(7)
    for N in (2, 3, 9, 17, 26):
        A = random_adjacency(rng, N, .3).astype(ADJ)
        V = rng.normal(size=(N, N)).astype(DFIELD)
        V[-1, :] = 0
        V[:, -1] = 0
        w = rng.uniform(.2, 3, N).astype(DWEIGHT)
        nae = (1 - A - np.identity(N)).astype(MASK)
        full1 = _mpi_newman_betweenness(to_cy(A, ADJ), V, N, 0, N)[0]
        full2 = _mpi_nsi_newman_betweenness(
            to_cy(A, ADJ), V, N, w, nae, 0, N)[0]
        for a, b in cuts(rng, N):
            tag = f"A:N{N}:{a}-{b}"
            r1 = _mpi_newman_betweenness(to_cy(A[a:b, :], ADJ), V, N, a, b)
            r2 = _mpi_nsi_newman_betweenness(
                to_cy(A[a:b, :], ADJ), V, N, w, nae[a:b, :], a, b)
            put(tag + ":newman", r1)
            put(tag + ":nsi", r2)
            put(tag + ":agree", (bool((r1[0] == full1[a:b]).all()),
                                 bool((r2[0] == full2[a:b]).all())))
        # a mask that differs from "not adjacent or equal"
        odd = (rng.random((N, N)) < .5).astype(MASK)
        put(f"A:N{N}:oddmask", _mpi_nsi_newman_betweenness(
            to_cy(A, ADJ), V, N, w, odd, 0, N))
        put(f"A:N{N}:oddmask-cut", _mpi_nsi_newman_betweenness(
            to_cy(A[1:N, :], ADJ), V, N, w, odd[1:N, :], 1, N))
        # malformed calls
        attempt(f"A:N{N}:bad-neg", _mpi_newman_betweenness,
                to_cy(A, ADJ), V, N, 3, 1)
        attempt(f"A:N{N}:bad-neg-nsi", _mpi_nsi_newman_betweenness,
                to_cy(A, ADJ), V, N, w, nae, 3, 1)
        attempt(f"A:N{N}:bad-rows", _mpi_newman_betweenness,
                to_cy(A[:1, :], ADJ), V, N, 0, N)
        attempt(f"A:N{N}:bad-rows-nsi", _mpi_nsi_newman_betweenness,
                to_cy(A[:1, :], ADJ), V, N, w, nae, 0, N)
        attempt(f"A:N{N}:bad-mask-rows", _mpi_nsi_newman_betweenness,
                to_cy(A, ADJ), V, N, w, nae[:1, :], 0, N)
        attempt(f"A:N{N}:bad-V", _mpi_newman_betweenness,
                to_cy(A, ADJ), V[:-1, :-1].copy(), N, 0, N)
        attempt(f"A:N{N}:bad-V-nsi", _mpi_nsi_newman_betweenness,
                to_cy(A, ADJ), V[:-1, :-1].copy(), N, w, nae, 0, N)
        attempt(f"A:N{N}:bad-w", _mpi_nsi_newman_betweenness,
                to_cy(A, ADJ), V, N, w[:1].copy(), nae, 0, N)
        attempt(f"A:N{N}:bad-off", _mpi_newman_betweenness,
                to_cy(A, ADJ), V, N, 1, N + 1)
        attempt(f"A:N{N}:bad-off-nsi", _mpi_nsi_newman_betweenness,
                to_cy(A, ADJ), V, N, w, nae, 1, N + 1)
        attempt(f"A:N{N}:bad-dtype", _mpi_newman_betweenness,
                A.astype(float), V, N, 0, N)
        attempt(f"A:N{N}:bad-none", _mpi_nsi_newman_betweenness,
                to_cy(A, ADJ), V, N, None, nae, 0, N)


# -----------------------------------------------------------------------------
# B. python chunk kernel of the n.s.i. Arenas betweenness
# -----------------------------------------------------------------------------

def section_b():
    rng = np.random.default_rng(11)
    for N in (4, 9, 16):
        A = random_adjacency(rng, N, .35)
        w = rng.uniform(.3, 2, N)
        net = Network(adjacency=A, directed=False, node_weights=w,
                      silence_level=3)
        net.nsi_degree()
        Aplus = (A + np.identity(N)).astype(int)
        tw = np.asarray(net.nsi_twinness())
        sp_P = (net.sp_nsi_diag_k_inv() * net.sp_Aplus()
                * net.sp_diag_w()).todok()
        ref = sp_P.toarray().copy()
        for excl in (True, False):
            for mode in ("neighbors", "twinness", "other"):
                for a, b in cuts(rng, N):
                    this_tw = tw[a:b, :] if mode == "twinness" else None
                    attempt(f"B:N{N}:{excl}:{mode}:{a}-{b}",
                            Network._mpi_nsi_arenas_betweenness,
                            N, sp_P, Aplus[a:b, :], w, w[a:b], a, b,
                            excl, mode, this_tw)
        put(f"B:N{N}:P-untouched", bool((sp_P.toarray() == ref).all()))
        # error paths
        attempt(f"B:N{N}:twin-none", Network._mpi_nsi_arenas_betweenness,
                N, sp_P, Aplus, w, w, 0, N, True, "twinness", None)
        attempt(f"B:N{N}:short-w", Network._mpi_nsi_arenas_betweenness,
                N, sp_P, Aplus, w, w[:1], 0, N, True, "neighbors", None)
        attempt(f"B:N{N}:short-A", Network._mpi_nsi_arenas_betweenness,
                N, sp_P, Aplus[:1, :], w, w, 0, N, True, "neighbors", None)
        attempt(f"B:N{N}:no-keys", Network._mpi_nsi_arenas_betweenness,
                N, sp_P, np.zeros((N, N), dtype=int), w, w, 0, N, True,
                "neighbors", None)
    # singular system -> RuntimeError is caught and reported
    P = sp.identity(2, format="dok")
    attempt("B:singular", Network._mpi_nsi_arenas_betweenness,
            2, P, np.array([[1, 0], [0, 1]]), np.ones(2), np.ones(2), 0, 2,
            False, "neighbors", None)
    attempt("B:singular-late", Network._mpi_nsi_arenas_betweenness,
            2, P, np.array([[1, 1], [1, 0]]), np.ones(2), np.ones(2), 0, 2,
            False, "neighbors", None)


# -----------------------------------------------------------------------------
# C. master loops
# -----------------------------------------------------------------------------

def measures(net):
    yield "newman", net.newman_betweenness, {}
    yield "nsi_newman", net.nsi_newman_betweenness, {}
    yield "nsi_newman+ends", net.nsi_newman_betweenness, \
        {"add_local_ends": True}
    yield "nsi_arenas", net.nsi_arenas_betweenness, {}
    yield "nsi_arenas-all", net.nsi_arenas_betweenness, \
        {"exclude_neighbors": False}


def section_c():
    for name, A, w in networks():
        N = len(A)
        reference = {}
        for size in (None, 2, 3, 5, 12):
            for silence in (0, 1, 3):
                if silence == 1 and size not in (None, 3):
                    continue
                for mname in ("newman", "nsi_newman", "nsi_newman+ends",
                              "nsi_arenas", "nsi_arenas-all"):
                    if mname.startswith("nsi_arenas") and (
                            N > 35 or size in (5,)):
                        continue
                    set_mpi(size)
                    net = Network(adjacency=A, directed=False,
                                  node_weights=w, silence_level=silence)
                    fn, kw = {m[0]: m[1:] for m in measures(net)}[mname]
                    tag = f"C:{name}:{mname}:size{size}:sil{silence}"
                    out = io.StringIO()
                    try:
                        with contextlib.redirect_stdout(out):
                            res = fn(**kw)
                        put(tag, res)
                        key = (mname,)
                        if key in reference:
                            put(tag + ":same-as-serial",
                                bool((res == reference[key]).all()))
                        else:
                            reference[key] = res
                    except BaseException as e:
                        put(tag + ":exc", (type(e).__name__, str(e)))
                    put(tag + ":out", "\n".join(
                        ln for ln in out.getvalue().splitlines()
                        if not ln.startswith("...took")))
                    mpi_state(tag)
    # twinness mode (uses the twinness of the whole network: connected only)
    rng = np.random.default_rng(5)
    for N in (8, 21):
        A = random_adjacency(rng, N, .3)
        w = rng.uniform(.5, 2, N)
        for size in (None, 2, 4):
            set_mpi(size)
            net = Network(adjacency=A, directed=False, node_weights=w,
                          silence_level=0)
            attempt(f"C:twinness:N{N}:size{size}",
                    net.nsi_arenas_betweenness, stopping_mode="twinness")
            mpi_state(f"C:twinness:N{N}:size{size}")
    set_mpi(None)


# -----------------------------------------------------------------------------
# D. serial submit_call / get_result protocol
# -----------------------------------------------------------------------------

def section_d():
    set_mpi(None)
    attempt("D:submit-a", mpi.submit_call, "len", ([1, 2, 3],),
            module="builtins", id="a")
    attempt("D:submit-b", mpi.submit_call, "divmod", (7, 2),
            module="builtins", id="b", time_est=3)
    attempt("D:submit-kw", mpi.submit_call, "sorted", ([3, 1, 2],),
            {"reverse": True}, module="builtins", id="kw")
    mpi_state("D:after-submit")
    attempt("D:dup", mpi.submit_call, "len", ([1],), module="builtins",
            id="a")
    attempt("D:unknown-name", mpi.submit_call, "no_such_function_xyz", (),
            module="math", id="c")
    attempt("D:unknown-module", mpi.submit_call, "len", ([],),
            module="no.such.module", id="d")
    attempt("D:raises", mpi.submit_call, "divmod", (1, 0),
            module="builtins", id="e")
    attempt("D:static", mpi.submit_call,
            "core._ext.numerics._mpi_newman_betweenness",
            (np.array([[0, 1], [1, 0]], dtype=ADJ), np.zeros((2, 2)), 2, 0, 2),
            module="pyunicorn", id=0)
    mpi_state("D:after-errors")
    attempt("D:get-b", mpi.get_result, "b")
    attempt("D:get-next", mpi.get_next_result)
    attempt("D:get-missing", mpi.get_result, "zzz")
    attempt("D:get-b-again", mpi.get_result, "b")
    attempt("D:get-kw", mpi.get_result, "kw")
    attempt("D:get-0", mpi.get_result, 0)
    attempt("D:get-next-empty", mpi.get_next_result)
    mpi_state("D:end")
    # emulated slaves: out-of-order retrieval on one slave is refused
    set_mpi(2)
    attempt("D:fifo-1", mpi.submit_call, "len", ([1],), module="builtins",
            id=1)
    attempt("D:fifo-2", mpi.submit_call, "len", ([1, 2],), module="builtins",
            id=2)
    attempt("D:fifo-get2", mpi.get_result, 2)
    attempt("D:fifo-get1", mpi.get_result, 1)
    attempt("D:fifo-get2b", mpi.get_result, 2)
    mpi_state("D:fifo-end")
    set_mpi(4)
    for k in range(7):
        attempt(f"D:spread-{k}", mpi.submit_call, "abs", (-k,),
                module="builtins", id=k, time_est=1 + (k % 3))
    mpi_state("D:spread")
    for k in (0, 1, 2, 3, 4, 5, 6):
        attempt(f"D:spread-get-{k}", mpi.get_result, k)
    mpi_state("D:spread-end")
    set_mpi(None)


# -----------------------------------------------------------------------------
# E. shortest-path betweenness on target subsets
# -----------------------------------------------------------------------------

def section_e():
    rng = np.random.default_rng(3)
    for name, A, w in networks():
        N = len(A)
        net = Network(adjacency=A, directed=False, node_weights=w,
                      silence_level=3)
        attempt(f"E:{name}:all", net.nsi_betweenness)
        attempt(f"E:{name}:plain", net.nsi_betweenness, nsi=False)
        parts = np.array_split(np.arange(N), 3)
        total = 0
        for k, part in enumerate(parts):
            if len(part) == 0:
                continue
            r = net.nsi_betweenness(targets=part)
            put(f"E:{name}:part{k}", r)
            total = total + r * w
        put(f"E:{name}:sum", total)
        src = rng.permutation(N)[:max(1, N // 2)]
        attempt(f"E:{name}:src", net.nsi_betweenness, sources=src,
                targets=rng.permutation(N)[:max(1, N // 3)])


# -----------------------------------------------------------------------------
# F. chunking of larger components (sparse rings with a few chords)
# -----------------------------------------------------------------------------

def section_f():
    rng = np.random.default_rng(99)
    for N in (10, 11, 19, 20, 21, 99, 101, 150, 333):
        A = np.zeros((N, N), dtype=int)
        idx = np.arange(N)
        A[idx, (idx + 1) % N] = 1
        for _ in range(N // 10):
            a, b = rng.integers(0, N, 2)
            if a != b:
                A[a, b] = 1
        A = ((A + A.T) > 0).astype(int)
        w = rng.uniform(.5, 1.5, N)
        serial = {}
        for size in (None, 2, 3, 4, 7, 40):
            for mname in ("newman", "nsi_newman", "nsi_arenas"):
                if mname == "nsi_arenas" and N > 25:
                    continue
                set_mpi(size)
                net = Network(adjacency=A, directed=False, node_weights=w,
                              silence_level=0 if N < 100 else 2)
                fn = {"newman": net.newman_betweenness,
                      "nsi_newman": net.nsi_newman_betweenness,
                      "nsi_arenas": net.nsi_arenas_betweenness}[mname]
                tag = f"F:ring{N}:{mname}:size{size}"
                attempt(tag, fn)
                mpi_state(tag)


if __name__ == "__main__":
    np.seterr(all="ignore")
    section_a()
    section_b()
    section_c()
    section_d()
    section_e()
    section_f()
    print("items:", len(LOG))
    print("digest:", H.hexdigest())
