"""Digest of CouplingAnalysis.mutual_information / information_transfer."""
import hashlib
import io
import contextlib
import warnings
import numpy as np
from pyunicorn.funcnet import CouplingAnalysis

warnings.simplefilter("ignore")
h = hashlib.sha256()


def feed(tag, obj):
    h.update(repr(tag).encode())
    if isinstance(obj, tuple):
        for o in obj:
            feed(tag, o)
    elif isinstance(obj, np.ndarray):
        h.update(str(obj.dtype).encode() + repr(obj.shape).encode())
        h.update(np.ascontiguousarray(obj).tobytes())
    else:
        h.update(repr(obj).encode())


def run(tag, fn):
    np.random.seed(1234)
    out = io.StringIO()
    try:
        with contextlib.redirect_stdout(out), np.errstate(all='ignore'):
            res = fn()
        feed(tag, res)
    except Exception as e:  # pylint: disable=broad-except
        feed(tag, "EXC:" + type(e).__name__ + ":" + str(e))
    feed(tag, out.getvalue())
    # RNG consumption must be identical
    feed(tag, np.random.get_state()[1][:8])
    feed(tag, int(np.random.get_state()[2]))


def datasets():
    rng = np.random.RandomState(7)
    d1 = rng.randn(60, 3)
    for t in range(2, 60):
        d1[t, 1] += 0.7 * d1[t-1, 0]
        d1[t, 2] += 0.5 * d1[t-2, 1]
    d2 = rng.rand(45, 2, 2)          # gets flattened to 4 variables
    d3 = rng.randn(40, 3)
    d3[:, 1] = 2.5                   # constant series
    d4 = np.round(rng.randn(50, 3))  # many ties
    d5 = rng.randn(3, 5)             # N > T
    d6 = rng.randn(30, 2)
    d6[4, 1] = np.nan
    d7 = rng.randn(30, 0)            # no variables
    return [d1, d2, d3, d4, d5, d6, d7]


for n, data in enumerate(datasets()):
    ca = CouplingAnalysis(data.copy())
    before = ca.data.copy()
    for lag_mode in ('max', 'all', 'foo'):
        for tau_max in (0, 1, 3):
            for est, kw in (('knn', dict(knn=4)), ('knn', dict(knn=1)),
                            ('binning', dict(bins=3)),
                            ('binning', dict(bins=6)), ('gauss', {})):
                run(("mi", n, lag_mode, tau_max, est, sorted(kw.items())),
                    lambda: ca.mutual_information(
                        tau_max=tau_max, estimator=est, lag_mode=lag_mode,
                        **kw))
                feed("plogp", ca.plogp is None)
            for est in ('knn', 'gauss', 'binning'):
                for cond in ('ity', 'mit'):
                    for past in (1, 2):
                        run(("it", n, lag_mode, tau_max, est, cond, past),
                            lambda: ca.information_transfer(
                                tau_max=tau_max, estimator=est, knn=3,
                                past=past, cond_mode=cond,
                                lag_mode=lag_mode))
    # error paths
    run(("mi-neg", n), lambda: ca.mutual_information(tau_max=-1))
    run(("mi-est", n), lambda: ca.mutual_information(estimator='x'))
    run(("mi-knn", n), lambda: ca.mutual_information(knn=1000))
    run(("mi-tau", n), lambda: ca.mutual_information(
        tau_max=200, estimator='gauss'))
    run(("mi-tauT", n), lambda: ca.mutual_information(
        tau_max=data.shape[0], estimator='gauss'))
    run(("it-neg", n), lambda: ca.information_transfer(tau_max=-1))
    run(("it-est", n), lambda: ca.information_transfer(estimator='x'))
    run(("it-knn", n), lambda: ca.information_transfer(knn=0))
    run(("it-tau", n), lambda: ca.information_transfer(
        tau_max=200, estimator='gauss'))
    run(("it-cond", n), lambda: ca.information_transfer(
        tau_max=1, estimator='gauss', cond_mode='zzz'))
    run(("it-past0", n), lambda: ca.information_transfer(
        tau_max=1, estimator='gauss', past=0))
    # the data held by the object must be left untouched
    feed(("data", n), ca.data)
    feed(("same", n), bool(np.array_equal(before, ca.data, equal_nan=True)))

# default arguments on the documented example
ca = CouplingAnalysis(CouplingAnalysis.test_data()[:120])
run("doc-mi", lambda: ca.mutual_information(tau_max=2, knn=5))
run("doc-it", lambda: ca.information_transfer(tau_max=2, knn=5))
run("doc-mi-b", lambda: ca.mutual_information(tau_max=2, estimator='binning'))

print(h.hexdigest())
