"""C08: RQA line histograms equal a direct run-length count of the recurrence
matrix (all storage modes, with/without missing values), and the scalar RQA
measures are the stated functions of the histograms."""
import sys
import numpy as np
from pyunicorn.timeseries import RecurrencePlot

EPS = 1e-8


def runs(seq, bad=None):
    """lengths of maximal runs of True in seq; a run is dropped when it
    contains or is adjacent to a position flagged in bad"""
    out, n, i = [], len(seq), 0
    while i < n:
        if seq[i]:
            j = i
            while j < n and seq[j]:
                j += 1
            ok = True
            if bad is not None:
                lo, hi = max(i - 1, 0), min(j, n - 1)
                ok = not bad[lo:hi + 1].any()
            if ok:
                out.append(j - i)
            i = j
        else:
            i += 1
    return out


def hist_of(lengths, n):
    h = np.zeros(n, dtype=int)
    for k in lengths:
        h[k - 1] += 1
    return h


def reference(R, black, mv):
    """direct count: (diag, vert) histograms of colour `black`"""
    n = R.shape[0]
    C = (R == black)
    vert, diag = [], []
    for i in range(n):
        bad = None if mv is None else (mv | mv[i])
        vert += runs(C[i, :], bad)
    for k in range(1, n):
        idx = np.arange(n - k)
        bad = None if mv is None else (mv[idx + k] | mv[idx])
        diag += 2 * runs(C[idx + k, idx], bad)
    return hist_of(diag, n), hist_of(vert, n)


def entropy(h, m):
    t = h[m - 1:].astype(float)
    t = t[t != 0]
    p = t / (t.sum() + EPS)
    return -(p * np.log(p)).sum()


def frac(h, m):
    ls = np.arange(1, len(h) + 1)
    return (ls[m - 1:] @ h[m - 1:]) / float(ls @ h + EPS)


def mean(h, m):
    ls = np.arange(1, len(h) + 1)
    return (ls[m - 1:] @ h[m - 1:]) / float(h[m - 1:].sum() + EPS)


def maxlen(h):
    nz = np.nonzero(h)[0]
    return 1 + (nz.max() if nz.size else -1)


errors = []


def check(cond, msg):
    if not cond and len(errors) < 12:
        errors.append(msg)


def series(rng, n, levels):
    # piecewise constant random walk on few levels -> rich line structure
    x = rng.integers(0, levels, size=n).astype(float)
    rep = rng.integers(1, 4, size=n)
    return np.repeat(x, rep)[:n]


rng = np.random.default_rng(20240817)
for trial in range(60):
    n = int(rng.integers(6, 61))
    x = series(rng, n, int(rng.integers(2, 5)))
    n = len(x)
    for missing in (False, True):
        xs = x.copy()
        if missing:
            pos = rng.choice(n, size=max(1, n // 8), replace=False)
            xs[pos] = np.nan
        ref_R = None
        for sparse in (False, True):
            tag = f"trial {trial} N={n} missing={missing} sparse={sparse}"
            rp = RecurrencePlot(xs, threshold=0.5, metric="supremum",
                                missing_values=missing, sparse_rqa=sparse,
                                silence_level=2)
            if not sparse:
                ref_R = np.array(rp.recurrence_matrix()).astype(int)
            mv = np.isnan(xs) if missing else None
            d_ref, v_ref = reference(ref_R, 1, mv)
            d, v = np.array(rp.diagline_dist()), np.array(rp.vertline_dist())
            check((d == d_ref).all(),
                  f"{tag}: diagline_dist {d.tolist()} != direct {d_ref.tolist()}")
            check((v == v_ref).all(),
                  f"{tag}: vertline_dist {v.tolist()} != direct {v_ref.tolist()}")
            if not sparse:
                w = np.array(rp.white_vertline_dist())
                _, w_ref = reference(ref_R, 0, None)
                check((w == w_ref).all(), f"{tag}: white_vertline_dist differs")
                ls = np.arange(1, n + 1)
                if not missing:
                    check(ls @ v == ref_R.sum(), f"{tag}: black points")
                    check(ls @ w == n * n - ref_R.sum(), f"{tag}: white points")
                    check(ls @ d == ref_R.sum() - n, f"{tag}: diag points")
            # scalar measures are functions of the (direct) histograms
            for m in (1, 2, 3, 4):
                for name, got, exp in [
                    ("determinism", rp.determinism(m), frac(d_ref, m)),
                    ("average_diaglength", rp.average_diaglength(m),
                     mean(d_ref, m)),
                    ("diag_entropy", rp.diag_entropy(m), entropy(d_ref, m)),
                    ("laminarity", rp.laminarity(m), frac(v_ref, m)),
                    ("average_vertlength", rp.average_vertlength(m),
                     mean(v_ref, m)),
                    ("trapping_time", rp.trapping_time(m), mean(v_ref, m)),
                    ("vert_entropy", rp.vert_entropy(m), entropy(v_ref, m)),
                ]:
                    check(np.isclose(got, exp, rtol=1e-9, atol=1e-12),
                          f"{tag}: {name}({m}) = {got} != {exp}")
                if not sparse:
                    for name, got, exp in [
                        ("average_white_vertlength",
                         rp.average_white_vertlength(m), mean(w_ref, m)),
                        ("mean_recurrence_time",
                         rp.mean_recurrence_time(m), mean(w_ref, m)),
                        ("white_vert_entropy", rp.white_vert_entropy(m),
                         entropy(w_ref, m)),
                    ]:
                        check(np.isclose(got, exp, rtol=1e-9, atol=1e-12),
                              f"{tag}: {name}({m}) = {got} != {exp}")
            check(rp.max_diaglength() == maxlen(d_ref), f"{tag}: max_diaglength")
            check(rp.max_vertlength() == maxlen(v_ref), f"{tag}: max_vertlength")
            if not sparse:
                check(rp.max_white_vertlength() == maxlen(w_ref),
                      f"{tag}: max_white_vertlength")
                s = rp.rqa_summary(2, 3)
                check(np.isclose(s["DET"], frac(d_ref, 2))
                      and np.isclose(s["L"], mean(d_ref, 2))
                      and np.isclose(s["LAM"], frac(v_ref, 3)),
                      f"{tag}: rqa_summary(l_min=2, v_min=3) = {s} != "
                      f"DET {frac(d_ref, 2)}, L {mean(d_ref, 2)}, "
                      f"LAM {frac(v_ref, 3)} from the direct histograms")

if errors:
    print("FAIL: C08 violated")
    for e in errors:
        print("  " + e)
    sys.exit(1)
print("PASS")
