"""Equivalence digest for the cliquishness kernels (orders 4 and 5)."""
import hashlib
import io
import contextlib

import numpy as np

from pyunicorn.core.network import Network
from pyunicorn.core._ext.types import ADJ, DEGREE, to_cy
from pyunicorn.core._ext.numerics import \
    _local_cliquishness_4thorder, _local_cliquishness_5thorder

h = hashlib.sha256()


def feed(tag, value):
    h.update(tag.encode())
    if isinstance(value, np.ndarray):
        h.update(str(value.dtype).encode())
        h.update(str(value.shape).encode())
        h.update(np.ascontiguousarray(value).tobytes())
    else:
        h.update(repr(value).encode())


def attempt(tag, func, *args):
    try:
        with contextlib.redirect_stdout(io.StringIO()):
            res = func(*args)
        feed(tag, res)
    except Exception as exc:  # pylint: disable=broad-except
        feed(tag, "EXC:" + type(exc).__name__ + ":" + str(exc))


def sym(rng, N, p):
    A = (rng.random((N, N)) < p).astype(int)
    A = np.triu(A, 1)
    return A + A.T


rng = np.random.default_rng(20240611)
kernels = (_local_cliquishness_4thorder, _local_cliquishness_5thorder)

# 1. through the public API, undirected and directed, all orders
for N in (2, 3, 5, 8, 13, 21, 34):
    for p in (0.0, 0.15, 0.4, 0.7, 1.0):
        A = sym(rng, N, p)
        net = Network(adjacency=A, directed=False, silence_level=2)
        for order in (0, 1, 2, 3, 4, 5, 6, 4.0, -1):
            attempt(f"api{N},{p},{order}", net.local_cliquishness, order)
        D = (rng.random((N, N)) < p).astype(int)
        np.fill_diagonal(D, 0)
        dnet = Network(adjacency=D, directed=True, silence_level=2)
        attempt(f"dir{N},{p}", dnet.local_cliquishness, 4)

# 2. kernels called directly: consistent, directed and inconsistent inputs
for N in (0, 1, 4, 6, 9, 15, 24):
    for p in (0.2, 0.5, 0.9):
        A = sym(rng, N, p)
        k = A.sum(axis=1)
        D = (rng.random((N, N)) < p).astype(int)
        np.fill_diagonal(D, 0)
        L = sym(rng, N, p) + np.eye(N, dtype=int)       # self loops
        T = 2 * sym(rng, N, p)                          # entries 0 / 2
        for kern in kernels:
            name = kern.__name__
            attempt(f"{name}sym{N}{p}", kern, N, to_cy(A, ADJ),
                    to_cy(k, DEGREE))
            # degrees too small / too large: stale neighbour slots are read
            attempt(f"{name}low{N}{p}", kern, N, to_cy(A, ADJ),
                    to_cy(np.maximum(k - 1, 0), DEGREE))
            attempt(f"{name}high{N}{p}", kern, N, to_cy(A, ADJ),
                    to_cy(np.minimum(k + 2, N), DEGREE))
            attempt(f"{name}over{N}{p}", kern, N, to_cy(A, ADJ),
                    to_cy(k + N, DEGREE))
            attempt(f"{name}rand{N}{p}", kern, N, to_cy(A, ADJ),
                    to_cy(rng.integers(0, N + 1, N), DEGREE))
            attempt(f"{name}neg{N}{p}", kern, N, to_cy(A, ADJ),
                    to_cy(-k, DEGREE))
            attempt(f"{name}dirout{N}{p}", kern, N, to_cy(D, ADJ),
                    to_cy(D.sum(axis=1), DEGREE))
            attempt(f"{name}dirin{N}{p}", kern, N, to_cy(D, ADJ),
                    to_cy(D.sum(axis=0), DEGREE))
            attempt(f"{name}loops{N}{p}", kern, N, to_cy(L, ADJ),
                    to_cy(L.sum(axis=1), DEGREE))
            attempt(f"{name}twos{N}{p}", kern, N, to_cy(T, ADJ),
                    to_cy(k, DEGREE))
            # shape mismatches -> IndexError from bounds checks
            attempt(f"{name}bigN{N}{p}", kern, N + 2, to_cy(A, ADJ),
                    to_cy(np.concatenate([k, [3, 4]]), DEGREE))
            attempt(f"{name}shortk{N}{p}", kern, N, to_cy(A, ADJ),
                    to_cy(k[:-1], DEGREE))
            attempt(f"{name}smallN{N}{p}", kern, max(N - 2, 0),
                    to_cy(A, ADJ), to_cy(k, DEGREE))
            attempt(f"{name}rect{N}{p}", kern, N, to_cy(A[:, :-1], ADJ),
                    to_cy(k, DEGREE))
            # wrong dtypes / None
            attempt(f"{name}dtype{N}{p}", kern, N, A.astype(float),
                    to_cy(k, DEGREE))
            attempt(f"{name}none{N}{p}", kern, N, None, to_cy(k, DEGREE))

print(h.hexdigest())
