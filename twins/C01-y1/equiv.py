"""Equivalence digest for the ResNetwork effective-resistance store."""
import contextlib
import hashlib
import io
import warnings

import numpy as np

from pyunicorn.core.resistive_network import ResNetwork

warnings.simplefilter("ignore")
H = hashlib.sha256()


def feed(tag, value):
    if isinstance(value, np.ndarray):
        H.update(f"{tag}:{value.dtype}:{value.shape}:".encode())
        H.update(np.ascontiguousarray(value).tobytes())
    else:
        H.update(f"{tag}:{type(value).__name__}:{value!r};".encode())


def call(tag, fn, *args):
    out = io.StringIO()
    try:
        with contextlib.redirect_stdout(out):
            res = fn(*args)
        feed(tag, res)
    except Exception as e:  # pylint: disable=broad-except
        feed(tag + "!exc", type(e).__name__)
    feed(tag + ":stdout", out.getvalue())


def store(tag, net):
    feed(tag + ":store", net._effective_resistances)


def random_resistances(rng, N, p, cplx):
    while True:
        A = np.triu(rng.random((N, N)) < p, 1)
        A = (A | A.T)
        if N < 2 or A.sum() > 0:
            break
    R = np.triu(rng.integers(1, 12, size=(N, N)).astype(float), 1)
    R = (R + R.T) * A
    if cplx:
        I = np.triu(rng.integers(1, 9, size=(N, N)).astype(float), 1)
        R = R + 1j * ((I + I.T) * A)
    return R


def exercise(tag, net, rng, cplx):
    store(tag + "/0", net)
    call(tag + "/diam0", net.diameter_effective_resistance)
    store(tag + "/1", net)
    call(tag + "/avg1", net.average_effective_resistance)
    store(tag + "/2", net)
    call(tag + "/diam1", net.diameter_effective_resistance)
    for a in range(net.N):
        call(tag + f"/ercc{a}", net.effective_resistance_closeness_centrality,
             a)
    # change resistances -> memo must be dropped
    new = random_resistances(rng, net.N, 1.0, cplx) * net.adjacency
    with contextlib.redirect_stdout(io.StringIO()):
        net.update_resistances(new)
    store(tag + "/3", net)
    call(tag + "/avg2", net.average_effective_resistance)
    call(tag + "/avg2b", net.average_effective_resistance)
    store(tag + "/4", net)
    with contextlib.redirect_stdout(io.StringIO()):
        net.update_R()
    store(tag + "/5", net)
    call(tag + "/diam2", net.diameter_effective_resistance)
    call(tag + "/diam3", net.diameter_effective_resistance)
    store(tag + "/6", net)
    with contextlib.redirect_stdout(io.StringIO()):
        net.update_admittance()
    store(tag + "/7", net)
    call(tag + "/diam4", net.diameter_effective_resistance)


def main():
    rng = np.random.default_rng(20240601)
    with contextlib.redirect_stdout(io.StringIO()):
        nets = [("small", ResNetwork.SmallTestNetwork(), False),
                ("smallc", ResNetwork.SmallComplexNetwork(), True)]
    for N in (1, 2, 3, 4, 6, 9, 13):
        for p in (0.3, 0.7, 1.0):
            for cplx in (False, True):
                R = random_resistances(rng, N, p, cplx)
                tag = f"rnd{N}-{p}-{int(cplx)}"
                try:
                    with contextlib.redirect_stdout(io.StringIO()):
                        net = ResNetwork(R, silence_level=3)
                except Exception as e:  # pylint: disable=broad-except
                    feed(tag + "!ctor", type(e).__name__)
                    continue
                nets.append((tag, net, cplx))
    for tag, net, cplx in nets:
        exercise(tag, net, rng, cplx)
    # broken object: the memo must be in the same state after a failure
    with contextlib.redirect_stdout(io.StringIO()):
        net = ResNetwork.SmallTestNetwork()
    net.sparse_R = None
    call("broken/avg", net.average_effective_resistance)
    store("broken/0", net)
    call("broken/diam", net.diameter_effective_resistance)
    store("broken/1", net)
    print(len(nets), H.hexdigest())


main()
