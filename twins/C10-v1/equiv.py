"""Equivalence digest for twin_1 (CouplingAnalysis.mutual_information /
information_transfer: lagged-array, knn and Gaussian helpers)."""
import contextlib
import hashlib
import io
import warnings
from collections import Counter

import numpy as np

from pyunicorn.funcnet import CouplingAnalysis

warnings.simplefilter("ignore")
h = hashlib.sha256()
exc_types = Counter()


def feed(obj):
    if obj is None:
        h.update(b"None")
    elif isinstance(obj, tuple):
        for o in obj:
            feed(o)
    else:
        a = np.ascontiguousarray(obj)
        h.update(str(a.dtype).encode())
        h.update(str(a.shape).encode())
        h.update(a.tobytes())


def run(label, fn):
    h.update(label.encode())
    out = io.StringIO()
    try:
        with contextlib.redirect_stdout(out):
            np.random.seed(12345)
            res = fn()
        feed(res)
    except BaseException as e:  # pylint: disable=broad-except
        h.update(("EXC:" + type(e).__name__ + ":" + str(e)).encode())
        exc_types[type(e).__name__] += 1
    # state of the global generator after the call
    h.update(np.random.get_state()[1].tobytes())
    h.update(out.getvalue().encode())


def datasets():
    rng = np.random.RandomState(7)
    yield "test_data", CouplingAnalysis.test_data()[:120]
    yield "gauss_60x3", rng.randn(60, 3)
    a = rng.randn(80, 4)
    a[1:, 1] += 0.8 * a[:-1, 0]
    a[2:, 2] -= 0.6 * a[:-2, 1]
    yield "coupled_80x4", a
    yield "ints_50x3", rng.randint(0, 4, size=(50, 3)).astype(float)
    c = rng.randn(40, 3)
    c[:, 1] = 2.5
    yield "const_col", c
    yield "wide_5x7", rng.randn(5, 7)
    yield "f32_64x2", rng.randn(64, 2).astype(np.float32)


for name, data in datasets():
    ca = CouplingAnalysis(data)
    for lag_mode in ("max", "all", "other"):
        for tau_max in (0, 1, 3):
            for est, kw in (("knn", {"knn": 3}), ("knn", {"knn": 7}),
                            ("binning", {"bins": 4}), ("binning", {}),
                            ("gauss", {}), ("bogus", {})):
                run(f"MI/{name}/{lag_mode}/{tau_max}/{est}/{kw}",
                    lambda: ca.mutual_information(
                        tau_max=tau_max, estimator=est, lag_mode=lag_mode,
                        **kw))
            for est, kw in (("knn", {"knn": 4}), ("gauss", {}),
                            ("binning", {}), ("bogus", {})):
                for cond in ("ity", "mit", "nope"):
                    for past in (1, 2):
                        run(f"IT/{name}/{lag_mode}/{tau_max}/{est}/{cond}/"
                            f"{past}",
                            lambda: ca.information_transfer(
                                tau_max=tau_max, estimator=est, past=past,
                                cond_mode=cond, lag_mode=lag_mode, **kw))
    h.update(repr(sorted(k for k in vars(ca))).encode())
    # extreme parameters
    run(f"MI/{name}/tau_too_big", lambda: ca.mutual_information(
        tau_max=data.shape[0] + 2, estimator="gauss"))
    run(f"IT/{name}/tau_too_big", lambda: ca.information_transfer(
        tau_max=data.shape[0] + 2, estimator="gauss"))
    run(f"MI/{name}/knn_big", lambda: ca.mutual_information(knn=10**6))
    run(f"IT/{name}/knn_big", lambda: ca.information_transfer(knn=10**6))
    run(f"IT/{name}/neg_tau", lambda: ca.information_transfer(tau_max=-1))

# NaN input
nan_data = np.random.RandomState(3).randn(30, 3)
nan_data[4, 1] = np.nan
ca = CouplingAnalysis(nan_data)
run("MI/nan", lambda: ca.mutual_information(estimator="gauss"))
run("IT/nan", lambda: ca.information_transfer(estimator="gauss"))

print("exceptions:", sorted(exc_types.items()))
print(h.hexdigest())
