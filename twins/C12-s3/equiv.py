"""
Equivalence digest for property C12 (grid distances, nearest node lookup,
rectangular grids, cos-lat weights and area weighted connectivity).

Run as:  PYTHONPATH=<worktree>/src /venv/bin/python equiv.py
Prints one sha256 digest; it must be the same on the pristine and on the
refactored tree.
"""
import contextlib
import hashlib
import io
import os
import warnings

import numpy as np

warnings.simplefilter("ignore")

from pyunicorn.core.grid import Grid                      # noqa: E402
from pyunicorn.core.geo_grid import GeoGrid               # noqa: E402
from pyunicorn.core.geo_network import GeoNetwork         # noqa: E402
from pyunicorn.core._ext.numerics import (                # noqa: E402
    _calculate_angular_distance, _calculate_euclidean_distance)

H = hashlib.sha256()
COUNT = [0]
#  optional trace of the running digest, to locate a difference
TRACE = (open(os.environ["EQUIV_TRACE"], "w", encoding="ascii")
         if os.environ.get("EQUIV_TRACE") else None)


def rec(tag, val):
    """Feed a tagged value into the digest with full precision."""
    COUNT[0] += 1
    if TRACE is not None:
        TRACE.write(f"{H.hexdigest()[:12]} before {tag}\n")
    H.update(f"<{tag}>".encode())
    if isinstance(val, np.ma.MaskedArray):
        H.update(b"masked")
        rec(tag + ".data", np.asarray(val.data))
        rec(tag + ".mask", np.asarray(np.ma.getmaskarray(val)))
    elif isinstance(val, np.ndarray):
        H.update(f"{val.dtype}|{val.shape}|".encode())
        H.update(np.ascontiguousarray(val).tobytes())
    elif isinstance(val, np.generic):
        H.update(f"{val.dtype}|scalar|".encode())
        H.update(val.tobytes())
    elif isinstance(val, (tuple, list)):
        H.update(f"{type(val).__name__}{len(val)}".encode())
        for n, v in enumerate(val):
            rec(f"{tag}[{n}]", v)
    elif isinstance(val, dict):
        for k in sorted(val):
            rec(f"{tag}[{k}]", val[k])
    elif val is None or isinstance(val, (bool, int, float, complex, str,
                                         bytes)):
        H.update(f"{type(val).__name__}|{val!r}".encode())
    else:
        # library objects: only the type (their repr holds an address)
        H.update(f"object|{type(val).__name__}".encode())


def attempt(tag, func, *args, **kwargs):
    """Record the result, the printed text or the exception type."""
    out = io.StringIO()
    try:
        with contextlib.redirect_stdout(out):
            res = func(*args, **kwargs)
    except Exception as exc:  # pylint: disable=broad-except
        rec(tag, "EXC:" + type(exc).__name__)
        res = None
    else:
        rec(tag, res)
    rec(tag + ".stdout", out.getvalue())
    return res


SPECIAL = np.array([np.nan, np.inf, -np.inf, -0.0, 0.0, 1.0, -1.0, 1.0000001,
                    -1.0000001, 3.4e38, -3.4e38, 1e-45], dtype=np.float32)


# -- 1. the compiled kernels, called directly ---------------------------------

def tables(rng, n, kind):
    if kind == "unit":
        t = [rng.uniform(-1, 1, n) for _ in range(4)]
    elif kind == "wide":
        t = [rng.uniform(-1.5, 1.5, n) for _ in range(4)]
    else:
        t = [rng.choice(SPECIAL, n) for _ in range(4)]
    return [np.asarray(a, dtype=np.float32) for a in t]


def angular_kernel(tabs, size, n, fill):
    out = np.full((size, size), fill, dtype=np.float32)
    try:
        ret = _calculate_angular_distance(*tabs, out, n)
        status = repr(ret)
    except Exception as exc:  # pylint: disable=broad-except
        status = "EXC:" + type(exc).__name__
    return status, out


def euclid_kernel(x, size, n_dim, n_nodes, fill):
    out = np.full((size, size), fill, dtype=np.float32)
    try:
        ret = _calculate_euclidean_distance(x, out, n_dim, n_nodes)
        status = repr(ret)
    except Exception as exc:  # pylint: disable=broad-except
        status = "EXC:" + type(exc).__name__
    return status, out


rng = np.random.default_rng(20240812)
for n in (0, 1, 2, 3, 7, 20, 41):
    for kind in ("unit", "wide", "special"):
        tabs = tables(rng, n, kind)
        rec(f"ang/{n}/{kind}", angular_kernel(tabs, n, n, 7.0))
        # fewer nodes than the tables hold: the rest stays untouched
        if n > 2:
            rec(f"ang/{n}/{kind}/part", angular_kernel(tabs, n, n - 2, 7.0))
            # more nodes than available: IndexError after a partial fill
            rec(f"ang/{n}/{kind}/over", angular_kernel(tabs, n, n + 3, 7.0))
            rec(f"ang/{n}/{kind}/small",
                angular_kernel(tabs, n - 1, n, np.nan))
            short = [t.copy() for t in tabs]
            for pos in range(4):
                cut = list(short)
                cut[pos] = cut[pos][:n - 2]
                rec(f"ang/{n}/{kind}/short{pos}",
                    angular_kernel(cut, n, n, -3.0))
        # strided (non-contiguous) inputs
        wide = [np.repeat(t, 2)[::2] for t in tabs]
        rec(f"ang/{n}/{kind}/strided", angular_kernel(wide, n, n, 0.0))
    for n_dim in (0, 1, 2, 3, 5):
        for kind in ("normal", "big", "special"):
            if kind == "normal":
                x = rng.normal(0, 10, (n_dim, n))
            elif kind == "big":
                x = rng.uniform(-1, 1, (n_dim, n)) * 2e19
            else:
                x = rng.choice(SPECIAL, (n_dim, n))
            x = np.asarray(x, dtype=np.float32)
            rec(f"euc/{n}/{n_dim}/{kind}", euclid_kernel(x, n, n_dim, n, 5.0))
            if n > 2:
                rec(f"euc/{n}/{n_dim}/{kind}/part",
                    euclid_kernel(x, n, n_dim, n - 1, 5.0))
                rec(f"euc/{n}/{n_dim}/{kind}/over",
                    euclid_kernel(x, n, n_dim, n + 2, 5.0))
                rec(f"euc/{n}/{n_dim}/{kind}/dimover",
                    euclid_kernel(x, n, n_dim + 1, n, 5.0))
                rec(f"euc/{n}/{n_dim}/{kind}/small",
                    euclid_kernel(x, n - 1, n_dim, n, 5.0))
            rec(f"euc/{n}/{n_dim}/{kind}/F",
                euclid_kernel(np.asfortranarray(x), n, n_dim, n, 5.0))
attempt("ang/badtype", _calculate_angular_distance,
        *[np.zeros(3)] * 4, np.zeros((3, 3), dtype=np.float32), 3)
attempt("ang/none", _calculate_angular_distance,
        None, None, None, None, None, 3)
attempt("euc/badtype", _calculate_euclidean_distance,
        np.zeros((2, 3)), np.zeros((3, 3), dtype=np.float32), 2, 3)


# -- 2. grids -----------------------------------------------------------------

def geo_coords(rng, n, kind):
    if kind == "random":
        lat = rng.uniform(-90, 90, n)
        lon = rng.uniform(-180, 360, n)
    elif kind == "poles":
        lat = rng.choice([-90., 90., 0., 89.99999, -89.99999, 45.], n)
        lon = rng.choice([0., 180., -180., 360., 90., 1e-5, 179.99999], n)
    elif kind == "dupes":
        lat = np.repeat(rng.uniform(-90, 90, (n + 1) // 2), 2)[:n]
        lon = np.repeat(rng.uniform(0, 360, (n + 1) // 2), 2)[:n]
    elif kind == "antipodal":
        la = rng.uniform(-90, 90, (n + 1) // 2)
        lo = rng.uniform(-180, 180, (n + 1) // 2)
        lat = np.concatenate([la, -la])[:n]
        lon = np.concatenate([lo, lo + 180.])[:n]
    elif kind == "wild":
        lat = rng.choice([np.nan, np.inf, 1e30, -1e30, 500., -91., 12.],
                         n)
        lon = rng.choice([np.nan, -np.inf, 1e30, 720., -540., 33.], n)
    else:
        raise ValueError(kind)
    return lat, lon


def probe_geogrid(tag, grid):
    attempt(tag + "/cos_lat", grid.cos_lat)
    attempt(tag + "/sin_lat", grid.sin_lat)
    attempt(tag + "/cos_lon", grid.cos_lon)
    attempt(tag + "/sin_lon", grid.sin_lon)
    attempt(tag + "/angdist", grid.angular_distance)
    attempt(tag + "/angdist2", grid.angular_distance)
    attempt(tag + "/distance", grid.distance)
    attempt(tag + "/euclid", grid.euclidean_distance)
    attempt(tag + "/boundaries", grid.boundaries)
    attempt(tag + "/print_boundaries", grid.print_boundaries)
    attempt(tag + "/grid", grid.grid)
    attempt(tag + "/lat_seq", grid.lat_sequence)
    attempt(tag + "/lon_seq", grid.lon_sequence)
    attempt(tag + "/str", str, grid)
    queries = [(14., 9.), (90., 0.), (-90., 123.), (0., 180.), (0., -180.),
               (np.float32(33.3), np.float32(-77.7)), (7, 200),
               (np.nan, 0.), (0., np.inf), (1e6, -1e6),
               (np.float64(-12.5), 359.9999),
               (np.array([10., -10.]), np.array([[5.], [50.]])),
               (np.arange(grid.N, dtype=float), 3.),
               ("a", 1.), (None, 2.), ([1., 2.], 3.),
               # twin 2: more kinds of "numbers" for the clamp
               (1., "b"), (2., None), (np.float16(12.), np.float16(40.)),
               (np.array(20.), np.array(30., dtype=np.float32)),
               (True, False), (10 + 2j, 3.), (5., 1e3j),
               (np.float32(np.nan), np.float32(np.inf)),
               (np.longdouble(33.), 44.), (-0.0, -0.0),
               (np.ma.masked_array([10., 20.], [False, True]), 5.),
               (np.array([np.nan, 10., np.inf]).reshape(3, 1), 7.),
               (np.zeros((0, 1)), 1.), (1e308, 1e308), (2**70, -2**70)]
    for q, (la, lo) in enumerate(queries):
        attempt(f"{tag}/node_number/{q}", grid.node_number, la, lo)
    attempt(tag + "/node_number/kw", grid.node_number,
            lon_node=9., lat_node=14.)
    attempt(tag + "/convert_lon", grid.convert_lon_coordinates,
            grid.lon_sequence())
    for r, region in enumerate([
            np.array([0., 0., 0., 11., 11., 11., 11., 0.]),
            np.array([-30., -30., -30., 40., 60., 40., 60., -30.]),
            GeoGrid.region("ENSO"), GeoGrid.region("NINO34")]):
        attempt(f"{tag}/region/{r}", grid.region_indices, region)
    # state of the object afterwards
    rec(tag + "/state", sorted(k for k in vars(grid)))


def probe_grid(tag, grid):
    attempt(tag + "/euclid", grid.euclidean_distance)
    attempt(tag + "/euclid2", grid.euclidean_distance)
    attempt(tag + "/distance", grid.distance)
    attempt(tag + "/boundaries", grid.boundaries)
    attempt(tag + "/grid", grid.grid)
    attempt(tag + "/size", grid.grid_size)
    attempt(tag + "/str", str, grid)
    dim = grid.grid()["space"].shape[0]
    qrng = np.random.default_rng(5)
    queries = [tuple(qrng.normal(0, 10, dim)) for _ in range(5)]
    queries += [tuple(np.zeros(dim)), 3.0, [np.nan] * dim,
                qrng.normal(0, 5, (grid.N, dim)), "x", None,
                tuple(np.zeros(dim + 1))]
    for q, x in enumerate(queries):
        attempt(f"{tag}/node_number/{q}", grid.node_number, x)
    for i in (0, grid.N - 1, grid.N, -1):
        attempt(f"{tag}/node_coordinates/{i}", grid.node_coordinates, i)
    for d in range(dim + 1):
        attempt(f"{tag}/sequence/{d}", grid.sequence, d)
    rec(tag + "/state", sorted(k for k in vars(grid)))


probe_geogrid("geo/small", attempt("geo/small/new", GeoGrid.SmallTestGrid))
probe_grid("grid/small", attempt("grid/small/new", Grid.SmallTestGrid))

rng = np.random.default_rng(777)
for kind in ("random", "poles", "dupes", "antipodal", "wild"):
    for n in (1, 2, 5, 12, 30):
        lat, lon = geo_coords(rng, n, kind)
        tag = f"geo/{kind}/{n}"
        g = attempt(tag + "/new", GeoGrid, np.arange(4), lat, lon, 2)
        if g is not None:
            probe_geogrid(tag, g)
# float32 and integer inputs, silence level 0
g = attempt("geo/f32/new", GeoGrid, np.arange(3, dtype=np.float32),
            np.linspace(-80, 80, 9, dtype=np.float32),
            np.linspace(0, 350, 9, dtype=np.float32), 0)
probe_geogrid("geo/f32", g)
g = attempt("geo/int/new", GeoGrid, np.arange(3),
            np.arange(-40, 41, 10), np.arange(0, 90, 10), 0)
probe_geogrid("geo/int", g)
attempt("geo/empty/new", GeoGrid, np.arange(3), np.array([]), np.array([]))
attempt("geo/mismatch/new", GeoGrid, np.arange(3), np.arange(3.),
        np.arange(4.))

for dim in (1, 2, 3, 4):
    for n in (1, 2, 6, 25):
        for kind in ("normal", "big", "special"):
            if kind == "normal":
                x = rng.normal(0, 10, (dim, n))
            elif kind == "big":
                x = rng.uniform(-1, 1, (dim, n)) * 3e38
            else:
                x = rng.choice(SPECIAL.astype(float), (dim, n))
            tag = f"grid/{dim}/{n}/{kind}"
            g = attempt(tag + "/new", Grid, np.arange(5), x, 2)
            if g is not None:
                probe_grid(tag, g)
attempt("grid/empty/new", Grid, np.arange(3), np.zeros((2, 0)))

# rectangular grids
axes_sets = [
    [np.array([0., 5.]), np.array([1., 2.])],
    [np.array([0., 5., 7.]), np.array([1., 2.])],
    [np.arange(4), np.linspace(0, 1, 3)],
    [np.arange(3.), np.arange(2.), np.arange(4.)],
    [np.arange(2.), np.arange(3.), np.arange(2.), np.arange(2.)],
    [np.array([1.5])],
    [np.array([3.]), np.array([4.])],
    [np.array([]), np.array([1., 2.])],
    [[1, 2, 3], (4., 5.)],
    [np.float64(2.), np.arange(3)],
    [np.array([[1., 2.], [3., 4.]]), np.array([5., 6.])],
    [],
    [np.array(["a", "b"]), np.array([1., 2.])],
    [np.array([np.nan, 1.]), np.array([np.inf, -0.0, 2.])],
]
for a, axes in enumerate(axes_sets):
    attempt(f"rect/{a}/seq", Grid.coord_sequence_from_rect_grid, axes)
    g = attempt(f"rect/{a}/regular", Grid.RegularGrid, np.arange(2), axes, 2)
    if g is not None:
        probe_grid(f"rect/{a}/grid", g)
    if len(axes) >= 2:
        attempt(f"rect/{a}/geoseq", GeoGrid.coord_sequence_from_rect_grid,
                axes[0], axes[1])
    g = attempt(f"rect/{a}/georegular", GeoGrid.RegularGrid,
                np.arange(2), axes, 2)
    if g is not None:
        probe_geogrid(f"rect/{a}/geogrid", g)
attempt("rect/kw", GeoGrid.coord_sequence_from_rect_grid,
        lon_grid=np.array([1., 2.]), lat_grid=np.array([0., 5., 9.]))


# -- 3. geographic networks ---------------------------------------------------

def probe_net(tag, net):
    rec(tag + "/weights", net.node_weights)
    rec(tag + "/weight_type", net.node_weight_type)
    rec(tag + "/mean_w", getattr(net, "mean_node_weight", None))
    rec(tag + "/total_w", getattr(net, "total_node_weight", None))
    for name in ("area_weighted_connectivity", "inarea_weighted_connectivity",
                 "outarea_weighted_connectivity",
                 "connectivity_weighted_distance",
                 "inconnectivity_weighted_distance",
                 "outconnectivity_weighted_distance",
                 "average_link_distance", "inaverage_link_distance",
                 "outaverage_link_distance", "total_link_distance",
                 "intotal_link_distance", "outtotal_link_distance",
                 "max_link_distance", "nsi_degree", "nsi_local_clustering",
                 "nsi_average_path_length", "nsi_transitivity"):
        attempt(f"{tag}/{name}", getattr(net, name))
    for name in ("area_weighted_connectivity_distribution",
                 "inarea_weighted_connectivity_distribution",
                 "outarea_weighted_connectivity_distribution",
                 "area_weighted_connectivity_cumulative_distribution",
                 "inarea_weighted_connectivity_cumulative_distribution",
                 "outarea_weighted_connectivity_cumulative_distribution"):
        for n_bins in (1, 4):
            attempt(f"{tag}/{name}/{n_bins}", getattr(net, name), n_bins)
    attempt(tag + "/geodist", net.geographical_distribution,
            net.degree(), 3)
    attempt(tag + "/geocumu", net.geographical_cumulative_distribution,
            net.degree(), 3)
    attempt(tag + "/str", str, net)
    # switching the weight type afterwards
    for wt in ("irrigation", None, "surface", "nonsense", 3, ["surface"],
               np.array(["surface", "x"]), "surface"):
        attempt(f"{tag}/set/{wt!r}", net.set_node_weight_type, wt)
        rec(f"{tag}/set/{wt!r}/weights", net.node_weights)
        rec(f"{tag}/set/{wt!r}/type", net.node_weight_type)
        rec(f"{tag}/set/{wt!r}/mean", getattr(net, "mean_node_weight", None))
        attempt(f"{tag}/set/{wt!r}/nsi_degree", net.nsi_degree)
        attempt(f"{tag}/set/{wt!r}/awc", net.area_weighted_connectivity)
    rec(tag + "/state", sorted(k for k in vars(net)))


probe_net("net/small", attempt("net/small/new", GeoNetwork.SmallTestNetwork))

rng = np.random.default_rng(4242)
for kind in ("random", "poles", "dupes", "wild"):
    for n in (2, 6, 15):
        for directed in (False, True):
            for wt in (None, "surface", "irrigation", "bogus"):
                for silence in (0, 2):
                    lat, lon = geo_coords(rng, n, kind)
                    A = (rng.random((n, n)) < 0.35).astype(np.int8)
                    np.fill_diagonal(A, 0)
                    if not directed:
                        A = np.maximum(A, A.T)
                    tag = f"net/{kind}/{n}/{directed}/{wt}/{silence}"
                    grid = GeoGrid(np.arange(3), lat, lon, 2)
                    net = attempt(tag + "/new", GeoNetwork, grid,
                                  adjacency=A, directed=directed,
                                  node_weight_type=wt, silence_level=silence)
                    if net is not None and (silence == 2 or n == 6):
                        probe_net(tag, net)

print("items", COUNT[0])
print("sha256", H.hexdigest())
