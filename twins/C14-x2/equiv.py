"""Equivalence digest for the visibility graph mechanism (property C14)."""
import hashlib
import io
import contextlib

import numpy as np

from pyunicorn.timeseries import VisibilityGraph
from pyunicorn.timeseries._ext import numerics as K
from pyunicorn.core._ext.types import MASK, FIELD, ADJ

h = hashlib.sha256()


def feed(tag, obj):
    h.update(tag.encode())
    if isinstance(obj, np.ndarray):
        h.update(str(obj.dtype).encode())
        h.update(str(obj.shape).encode())
        h.update(np.ascontiguousarray(obj).tobytes())
    else:
        h.update(repr(obj).encode())


def measures(vg):
    out = []
    for name in ("retarded_degree", "advanced_degree", "degree",
                 "retarded_local_clustering", "advanced_local_clustering",
                 "boundary_corrected_degree"):
        try:
            with np.errstate(all="ignore"):
                out.append((name, np.asarray(getattr(vg, name)())))
        except Exception as e:  # pylint: disable=broad-except
            out.append((name, "EXC:" + type(e).__name__))
    return out


def run_case(tag, x, t=None, mv=False, horizontal=False):
    buf = io.StringIO()
    try:
        with contextlib.redirect_stdout(buf):
            vg = VisibilityGraph(x, timings=t, missing_values=mv,
                                 horizontal=horizontal, silence_level=2)
    except Exception as e:  # pylint: disable=broad-except
        feed(tag, "EXC:" + type(e).__name__)
        return
    feed(tag + "/A", np.asarray(vg.adjacency))
    for name, val in measures(vg):
        feed(tag + "/" + name, val)
    # public re-computation of the relations
    with contextlib.redirect_stdout(buf):
        feed(tag + "/rel", vg.visibility_relations())
        feed(tag + "/relh", vg.visibility_relations_horizontal())


rng = np.random.RandomState(20241004)
sizes = [1, 2, 3, 4, 5, 7, 10, 23, 60]
for N in sizes:
    for rep in range(3):
        x = rng.randn(N)
        xi = rng.randint(0, 4, size=N).astype(float)       # many ties
        t = np.sort(rng.rand(N)) * 10 + np.arange(N)
        for hz in (False, True):
            run_case(f"g{N}.{rep}.{hz}", x, horizontal=hz)
            run_case(f"i{N}.{rep}.{hz}", xi, horizontal=hz)
            run_case(f"t{N}.{rep}.{hz}", x, t=t, horizontal=hz)
            run_case(f"m{N}.{rep}.{hz}", x, t=t, mv=True, horizontal=hz)
        xm = x.copy()
        xm[rng.rand(N) < 0.25] = np.nan
        run_case(f"n{N}.{rep}.mv", xm, t=t, mv=True)
        run_case(f"n{N}.{rep}.nomv", xm, t=t, mv=False)
        run_case(f"n{N}.{rep}.int", np.where(np.isnan(xm), np.nan, xi),
                 mv=True)
        run_case(f"n{N}.{rep}.hz", xm, mv=True, horizontal=True)

# monotone / constant / convex / concave shapes
for N in (3, 6, 12):
    a = np.arange(N, dtype=float)
    for nm, x in (("const", np.ones(N)), ("up", a), ("down", -a),
                  ("convex", (a - N / 2.) ** 2),
                  ("concave", -(a - N / 2.) ** 2),
                  ("inf", np.where(a % 3 == 1, np.inf, a)),
                  ("ninf", np.where(a % 3 == 1, -np.inf, a))):
        for hz in (False, True):
            run_case(f"s{N}.{nm}.{hz}", x, horizontal=hz)
            run_case(f"sm{N}.{nm}.{hz}", x, mv=True, horizontal=hz)

# error behaviour: duplicate timings, short / long timings, empty input
x = rng.randn(8)
for nm, t in (("dup", np.array([0, 1, 2, 2, 3, 4, 5, 6.])),
              ("dup0", np.zeros(8)),
              ("dupend", np.array([0, 1, 2, 3, 4, 5, 6, 6.])),
              ("short", np.arange(5.)), ("short1", np.arange(7.)),
              ("empty", np.array([])), ("long", np.arange(12.)),
              ("rev", np.arange(8.)[::-1].copy())):
    for mv in (False, True):
        run_case(f"e.{nm}.{mv}", x, t=t, mv=mv)
xn = x.copy()
xn[[0, 3, 7]] = np.nan
run_case("e.dupnan", xn, t=np.array([0, 1, 2, 2, 3, 4, 5, 6.]), mv=True)
for N in (1, 2):
    for mv in (False, True):
        run_case(f"e.tiny{N}.{mv}", rng.randn(N), t=np.array([]), mv=mv)
        run_case(f"e.tinyd{N}.{mv}", rng.randn(N), t=np.zeros(N), mv=mv)
run_case("e.zero", np.array([]))
run_case("e.zeroh", np.array([]), horizontal=True)

# direct kernel calls (relations)
for N in (0, 1, 2, 3, 9, 31):
    x = rng.randn(N).astype(FIELD)
    t = np.cumsum(rng.rand(N) + .1).astype(FIELD)
    mvi = rng.rand(N) < 0.3
    xm = x.copy()
    xm[mvi] = np.nan
    for nm, call in (
            ("nomv", lambda A: K._visibility_relations_no_missingvalues(
                x, t, N, A)),
            ("mv", lambda A: K._visibility_relations_missingvalues(
                xm, t, N, A, mvi)),
            ("mvmask", lambda A: K._visibility_relations_missingvalues(
                x, t, N, A, mvi)),
            ("hz", lambda A: K._visibility_relations_horizontal(x, N, A))):
        A = np.zeros((N, N), dtype=MASK)
        try:
            r = call(A)
            feed(f"k{N}.{nm}.ret", r)
        except Exception as e:  # pylint: disable=broad-except
            feed(f"k{N}.{nm}", "EXC:" + type(e).__name__)
        feed(f"k{N}.{nm}.A", A)

# direct kernel calls (clustering), arbitrary symmetric / asymmetric A
for N in (0, 1, 2, 3, 4, 8, 20):
    for p in (0.2, 0.6, 1.0):
        A = (rng.rand(N, N) < p).astype(ADJ)
        S = np.triu(A, 1)
        S = (S + S.T).astype(ADJ)
        for nm, M in (("asym", A), ("sym", S)):
            norm = rng.randint(0, 4, size=N).astype(float)
            if N > 2:
                norm[1] = np.nan
            for kn in ("_retarded_local_clustering",
                       "_advanced_local_clustering"):
                out = np.full(N, -7.0)
                try:
                    with np.errstate(all="ignore"):
                        r = getattr(K, kn)(N, M, norm, out)
                    feed(f"c{N}.{p}.{nm}.{kn}.ret", r)
                except Exception as e:  # pylint: disable=broad-except
                    feed(f"c{N}.{p}.{nm}.{kn}", "EXC:" + type(e).__name__)
                feed(f"c{N}.{p}.{nm}.{kn}.out", out)

# subclass overriding the degree methods (dynamic dispatch must be kept)
class Sub(VisibilityGraph):
    def retarded_degree(self):
        return VisibilityGraph.retarded_degree(self) + 1.0

    def advanced_degree(self):
        return VisibilityGraph.advanced_degree(self) * 2.0


sub = Sub(rng.randn(15), silence_level=2)
for name, val in measures(sub):
    feed("sub/" + name, val)

print(h.hexdigest())
