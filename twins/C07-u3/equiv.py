"""Digest of the composite constructions: joint recurrence plots (with lag),
inter system recurrence networks and recurrence networks."""
import hashlib
import io
import contextlib
import warnings

import numpy as np

from pyunicorn.timeseries import RecurrenceNetwork, JointRecurrencePlot, \
    InterSystemRecurrenceNetwork, JointRecurrenceNetwork

warnings.simplefilter("ignore")
H = hashlib.sha256()


def put(tag, obj):
    H.update(tag.encode())
    if isinstance(obj, np.ndarray):
        H.update(str(obj.dtype).encode())
        H.update(str(obj.shape).encode())
        H.update(np.ascontiguousarray(obj).tobytes())
    elif isinstance(obj, (tuple, list)):
        for k, o in enumerate(obj):
            put(f"{tag}[{k}]", o)
    else:
        H.update(repr(obj).encode())


def attempt(tag, fn):
    out = io.StringIO()
    try:
        with contextlib.redirect_stdout(out):
            res = fn()
        put(tag, res)
    except Exception as e:  # pylint: disable=broad-except
        put(tag, "EXC:" + type(e).__name__ + ":" + str(e))
    put(tag + "/stdout", out.getvalue())


rng = np.random.RandomState(31337)


def series(n, d):
    return rng.standard_normal((n, d))


# ---------------------------------------------------------------- joint ----
def jstate(tag, jrp):
    put(tag + "/JR", jrp.JR)
    put(tag + "/meta", (
        jrp.N, jrp._mut_embedding, jrp._mut_R, jrp.R,
        None if jrp.JR is None else
        (jrp.JR.flags.owndata, jrp.JR.flags.c_contiguous,
         jrp.JR.flags.writeable),
        jrp.embedding is jrp._embedding))
    put(tag + "/emb", jrp.embedding)


def quant(obj):
    return (obj.recurrence_rate(), obj.determinism(l_min=2),
            obj.laminarity(v_min=2), obj.max_diaglength(),
            obj.diagline_dist(), obj.vertline_dist(),
            obj.white_vertline_dist(), obj.average_diaglength(),
            obj.trapping_time(), obj.diag_entropy())


x = series(30, 2)
y = series(30, 3)
x1 = rng.standard_normal(30)
y1 = rng.standard_normal(30)
LAGS = [0, 1, 5, 29, 30, 31, -1, -7, -29, -30, -31, np.int64(3),
        np.int32(-4), np.int8(-6), np.int8(7), 2.0, -2.0, None, True,
        np.nan]
for lag in LAGS:
    for kw in ({"threshold": (1.0, 1.5)},
               {"threshold_std": (0.8, 0.6)},
               {"recurrence_rate": (0.2, 0.1)},
               {"threshold": (0.4, 0.5), "dim": (2, 3), "tau": (1, 2)},
               {"recurrence_rate": (0.3, 0.3), "dim": (3, 1), "tau": (2, 5)}):
        tag = f"J{lag!r}{sorted(kw)}"
        a, b = (x1, y1) if "dim" in kw else (x, y)
        for metric in (("supremum", "supremum"), ("euclidean", "manhattan")):
            for sl in (0, 2):
                def build():
                    j = JointRecurrencePlot(a, b, metric=metric, lag=lag,
                                            silence_level=sl, **kw)
                    jstate(tag + "built", j)
                    return j.recurrence_matrix()
                attempt(tag + str(metric) + str(sl), build)

jrp = JointRecurrencePlot(x, y, threshold=(1., 1.), lag=2, silence_level=2)
calls = [
    ("t1", lambda: jrp.set_fixed_threshold((0.5, 2.0))),
    ("t2", lambda: jrp.set_fixed_threshold([2.0, 0.5, 9])),
    ("t3", lambda: jrp.set_fixed_threshold((0.5,))),
    ("t4", lambda: jrp.set_fixed_threshold(0.5)),
    ("t5", lambda: jrp.set_fixed_threshold({0: 1.0, 1: 2.0})),
    ("t6", lambda: jrp.set_fixed_threshold((None, 1.0))),
    ("t7", lambda: jrp.set_fixed_threshold((1.0, None))),
    ("t8", lambda: jrp.set_fixed_threshold((np.inf, np.nan))),
    ("s1", lambda: jrp.set_fixed_threshold_std((0.5, 1.0))),
    ("s2", lambda: jrp.set_fixed_threshold_std((0.5,))),
    ("r1", lambda: jrp.set_fixed_recurrence_rate((0.1, 0.4))),
    ("r2", lambda: jrp.set_fixed_recurrence_rate((0.1,))),
    ("r3", lambda: jrp.set_fixed_recurrence_rate((0.1, 1.4))),
    ("r4", lambda: jrp.set_fixed_recurrence_rate((1.1, 0.4))),
    ("r5", lambda: jrp.set_fixed_recurrence_rate(0.3)),
    ("r6", lambda: jrp.set_fixed_recurrence_rate((0, 1))),
]
for lag in (2, 0, -3, 30, -30, 40, -40, 1.5, None, np.int8(-9)):
    jrp.lag = lag
    for name, fn in calls:
        before = jrp.JR
        attempt(f"Jcall{lag!r}{name}", fn)
        jstate(f"Jcall{lag!r}{name}", jrp)
        put(f"Jcall{lag!r}{name}/fresh", jrp.JR is before)
    attempt(f"Jquant{lag!r}", lambda: quant(jrp))
# metric changed / unknown after construction
jrp.lag = 1
jrp.metric = ("manhattan", "euclidean")
attempt("Jmetric", lambda: jrp.set_fixed_threshold((1., 1.)))
jstate("Jmetric", jrp)
jrp.metric = ("manhattan", "foo")
attempt("Jmetricbad", lambda: jrp.set_fixed_threshold((1., 1.)))
jstate("Jmetricbad", jrp)
attempt("Jmetricbad2", lambda: jrp.set_fixed_recurrence_rate((.1, .1)))
jstate("Jmetricbad2", jrp)
jrp.metric = ("manhattan",)
attempt("Jmetricshort", lambda: jrp.set_fixed_threshold((1., 1.)))
jstate("Jmetricshort", jrp)
# embedded series of different length assigned afterwards
jrp.metric = ("supremum", "supremum")
jrp.y_embedded = series(25, 2)
attempt("Jylen", lambda: jrp.set_fixed_threshold((1., 1.)))
jstate("Jylen", jrp)
attempt("Jylen2", lambda: jrp.set_fixed_recurrence_rate((.2, .2)))
jstate("Jylen2", jrp)
# unequal lengths / missing keywords
attempt("Jbad1", lambda: JointRecurrencePlot(
    series(10, 1), series(11, 1), threshold=(1, 1)))
attempt("Jbad2", lambda: JointRecurrencePlot(x, y, silence_level=2))
attempt("Jbad3", lambda: JointRecurrencePlot(
    x, y, threshold=(1, 1), lag=31, silence_level=2))

for kw in ({"threshold": (1.0, 1.5)}, {"recurrence_rate": (0.2, 0.1)},
           {"threshold_std": (0.7, 0.7)}):
    for lag in (0, 3, -3):
        def jrn():
            n = JointRecurrenceNetwork(x, y, lag=lag, silence_level=2, **kw)
            return (n.adjacency, n.N, n.recurrence_matrix())
        attempt(f"JRN{sorted(kw)}{lag}", jrn)

# --------------------------------------------------------- inter system ----
def istate(tag, net):
    put(tag + "/adj", net.adjacency)
    put(tag + "/isrm", net.inter_system_recurrence_matrix())
    put(tag + "/meta", (net.N, net.N_x, net.N_y, net.directed,
                        net.n_links,
                        net.rp_x.N, net.rp_y.N, net.crp_xy.N, net.crp_xy.M,
                        net.internal_recurrence_rates(),
                        net.cross_recurrence_rate(),
                        net.cross_global_clustering_xy(),
                        net.cross_global_clustering_yx(),
                        net.cross_transitivity_xy(),
                        net.cross_transitivity_yx()))
    put(tag + "/parts", (net.rp_x.recurrence_matrix(),
                         net.rp_y.recurrence_matrix(),
                         net.crp_xy.recurrence_matrix()))


for (nx, ny, d) in ((12, 12, 1), (15, 9, 2), (6, 20, 3), (1, 4, 2)):
    xs = series(nx, d)
    ys = series(ny, d)
    for metric in ("supremum", "euclidean", "manhattan"):
        for kw in ({"threshold": (0.8, 1.0, 1.2)},
                   {"recurrence_rate": (0.2, 0.3, 0.1)},
                   {"threshold": (0.8, 1.0, 1.2), "dim": 2, "tau": (1, 2)},
                   {"recurrence_rate": (0.5, 0.5, 0.5), "normalize": True},
                   {"threshold": (0.8, 1.0)}, {"recurrence_rate": 0.2}, {}):
            tag = f"I{nx},{ny},{d},{metric},{sorted(kw)}"

            def build():
                net = InterSystemRecurrenceNetwork(
                    xs, ys, metric=metric, silence_level=2, **kw)
                istate(tag, net)
                res = [net.set_fixed_threshold((0.5, 0.6, 0.7))]
                istate(tag + "re1", net)
                res.append(net.set_fixed_recurrence_rate((0.1, 0.2, 0.3)))
                istate(tag + "re2", net)
                m1 = net.inter_system_recurrence_matrix()
                m2 = net.inter_system_recurrence_matrix()
                res.append((m1 is m2, np.shares_memory(m1, m2),
                            np.shares_memory(
                                m1, net.crp_xy.recurrence_matrix())))
                # sizes edited by the user
                net.N_x = net.N_x - 1
                try:
                    res.append(net.inter_system_recurrence_matrix())
                except Exception as e:  # pylint: disable=broad-except
                    res.append(type(e).__name__ + str(e))
                return res
            attempt(tag, build)
attempt("Ibad", lambda: InterSystemRecurrenceNetwork(
    series(5, 2), series(5, 3), threshold=(1, 1, 1)))

# --------------------------------------------------- recurrence network ----
def nstate(tag, net):
    put(tag + "/adj", net.adjacency)
    put(tag + "/R", net.R)
    put(tag + "/meta", (net.N, net.directed, net.n_links, net._mut_R,
                        net.node_weights, np.shares_memory(
                            net.R, net.adjacency)))
    put(tag + "/measures", (net.degree(), net.transitivity(),
                            net.recurrence_rate(), net.determinism()))


for (n, d) in ((2, 1), (14, 1), (21, 3)):
    xs = series(n, d)
    xm = xs.copy()
    xm[rng.choice(n, size=max(1, n // 5), replace=False), 0] = np.nan
    w = rng.rand(n)
    for metric in ("supremum", "euclidean", "manhattan"):
        for kw in ({"threshold": 1.0}, {"threshold_std": 0.9},
                   {"recurrence_rate": 0.3}, {"local_recurrence_rate": 0.3},
                   {"adaptive_neighborhood_size": 1}, {},
                   {"threshold": 1.0, "local_recurrence_rate": 0.3},
                   {"local_recurrence_rate": 0.0},
                   {"threshold": 1.0, "sparse_rqa": True},
                   {"threshold": 0.6, "dim": 2, "tau": 3}):
            if "dim" in kw and d != 1:
                continue
            for miss in (False, True):
                for nw in (None, w, w[: max(n - 6, 1)]):
                    tag = (f"N{n},{d},{metric},{sorted(kw.items())},{miss},"
                           f"{None if nw is None else len(nw)}")

                    def build():
                        net = RecurrenceNetwork(
                            xm if miss else xs, metric=metric,
                            missing_values=miss, silence_level=2,
                            node_weights=nw, **kw)
                        nstate(tag, net)
                        if not miss:
                            net.set_fixed_threshold(0.7)
                            nstate(tag + "a", net)
                            net.set_fixed_local_recurrence_rate(0.2)
                            nstate(tag + "b", net)
                            net.set_fixed_recurrence_rate(0.2)
                            nstate(tag + "c", net)
                            net.set_adaptive_neighborhood_size(1)
                            nstate(tag + "d", net)
                            net.set_fixed_threshold_std(0.2)
                            nstate(tag + "e", net)
                        else:
                            # known quirk: N is the pruned node count here
                            net.set_fixed_threshold(0.7)
                            put(tag + "quirk", (net.adjacency, net.R, net.N))
                        return net.N
                    attempt(tag, build)

print(H.hexdigest())
