"""Equivalence digest for the euclidean distance kernel / Grid.euclidean_distance."""
import hashlib
import numpy as np
from pyunicorn.core.grid import Grid
from pyunicorn.core.geo_grid import GeoGrid
from pyunicorn.core._ext.numerics import _calculate_euclidean_distance
from pyunicorn.core._ext.types import FIELD

h = hashlib.sha256()


def feed(tag, arr):
    arr = np.ascontiguousarray(arr)
    h.update(tag.encode())
    h.update(str(arr.dtype).encode())
    h.update(str(arr.shape).encode())
    h.update(arr.tobytes())


def attempt(tag, fn):
    try:
        fn()
        h.update((tag + ":ok").encode())
    except BaseException as e:  # record the exception type only
        h.update((tag + ":" + type(e).__name__).encode())


rng = np.random.default_rng(20241)

# 1. Grid.euclidean_distance on random grids of several sizes / dimensions
for n_dim in (1, 2, 3, 5):
    for n in (1, 2, 7, 40, 123):
        scale = 10.0 ** rng.integers(-3, 6)
        space = rng.normal(size=(n_dim, n)) * scale
        if n > 3:
            space[:, 3] = space[:, 0]          # coincident nodes
        g = Grid(np.arange(4.), space, silence_level=2)
        d = g.euclidean_distance()
        feed(f"grid{n_dim}x{n}", d)
        feed(f"grid{n_dim}x{n}-again", g.euclidean_distance())
        feed(f"grid{n_dim}x{n}-distance", g.distance())

feed("small", Grid.SmallTestGrid().euclidean_distance())
feed("geo-small", GeoGrid.SmallTestGrid().euclidean_distance())
gg = GeoGrid.RegularGrid(np.arange(3.), (np.array([-60., 0., 45., 90.]),
                                          np.array([0., 90., 180., 270.])),
                         silence_level=2)
feed("geo-regular", gg.euclidean_distance())

# 2. kernel called directly, including non-finite and extreme coordinates
for n_dim, n in ((2, 6), (3, 17), (4, 1)):
    x = (rng.normal(size=(n_dim, n)) * 1e3).astype(FIELD)
    x[0, 0] = np.inf
    if n > 2:
        x[1, 2] = np.nan
        x[0, 1] = -np.inf
    if n > 4:
        x[:, 4] = np.float32(3e38)
        x[:, 5 % n] = np.float32(-3e38)
    out = np.full((n, n), -7, dtype=FIELD)
    with np.errstate(all="ignore"):
        _calculate_euclidean_distance(x, out, n_dim, n)
    feed(f"kernel{n_dim}x{n}", out)

# tiny / denormal differences
x = np.array([[1e-30, 2e-30, 1e-38, 0.0, 1.0, 1.0 + 2**-23]], dtype=FIELD)
out = np.zeros((6, 6), dtype=FIELD)
_calculate_euclidean_distance(x, out, 1, 6)
feed("tiny", out)

# partial ranges: N_dim / N_nodes smaller than the buffers, N_dim == 0
x = rng.normal(size=(4, 9)).astype(FIELD)
for nd, nn in ((0, 9), (2, 5), (4, 0), (1, 9)):
    out = np.full((9, 9), 5, dtype=FIELD)
    _calculate_euclidean_distance(x, out, nd, nn)
    feed(f"partial{nd},{nn}", out)

# 3. error behaviour (types only), including partially written outputs
x = rng.normal(size=(3, 5)).astype(FIELD)
for tag, args in (
        ("oob-nodes", lambda o: (x, o, 3, 7)),
        ("oob-dim", lambda o: (x, o, 4, 5)),
        ("dtype-x", lambda o: (x.astype(np.float64), o, 3, 5)),
        ("ndim-x", lambda o: (x[0], o, 3, 5)),
        ("none-x", lambda o: (None, o, 3, 5)),
        ("small-out", lambda o: (x, o[:3, :3], 3, 5)),
        ("rect-out", lambda o: (x, o[:2, :], 3, 5)),
        ("rect-out2", lambda o: (x, o[:, :2], 3, 5)),
        ("float-n", lambda o: (x, o, 3.5, 5))):
    out = np.full((5, 5), 9, dtype=FIELD)
    attempt(tag, lambda: _calculate_euclidean_distance(*args(out)))
    feed(tag + "-out", out)
attempt("dtype-out", lambda: _calculate_euclidean_distance(
    x, np.zeros((5, 5)), 3, 5))

print(h.hexdigest())
