"""
Equivalence digest for the cache-coherence mechanism of pyunicorn
(property C01).  Run as

    PYTHONPATH=<worktree>/src /venv/bin/python equiv.py

Prints one sha256 digest over a deterministic transcript of results, object
state (mutation counters, cache states, lru statistics) and exception types.
"""
import contextlib
import hashlib
import io
import sys

import numpy as np

LOG = []


def rec(tag, val=None):
    """Append a canonical, full precision representation to the transcript."""
    if isinstance(val, np.ndarray):
        s = f"{val.dtype}|{val.shape}|" + hashlib.sha256(
            np.ascontiguousarray(val).tobytes()).hexdigest()
    elif isinstance(val, (float, np.floating)):
        s = f"{type(val).__name__}|{float(val).hex()}"
    elif isinstance(val, (list, tuple)) and val and all(
            isinstance(v, (float, np.floating)) for v in val):
        s = "|".join(float(v).hex() for v in val)
    else:
        s = f"{type(val).__name__}|{val!r}"
    LOG.append(f"{tag}={s}")


def attempt(tag, fn, *args, **kwargs):
    """Call and record the result or the type of the raised exception."""
    try:
        out = fn(*args, **kwargs)
    except Exception as e:  # pylint: disable=broad-except
        rec(tag, f"EXC:{type(e).__name__}")
        return None
    rec(tag, out)
    return out


buf = io.StringIO()
with contextlib.redirect_stdout(buf):
    from pyunicorn.core.cache import Cached
    from pyunicorn.core.network import Network, NetworkError
    from pyunicorn.timeseries import RecurrenceNetwork, RecurrencePlot
    from pyunicorn.climate import ClimateNetwork

    # ------------------------------------------------------------------
    # A. the mix-in itself
    # ------------------------------------------------------------------
    class Foo(Cached):
        silence_level = 1

        def __init__(self):
            self.counter = 0
            self.a = 0
            self.b = "x"
            self.calls = 0

        def __cache_state__(self):
            return (self.counter,)

        @Cached.method()
        def plain(self, x, y=2):
            """Plain"""
            self.calls += 1
            return (x, y, self.counter)

        @Cached.method(name="named", attrs=("a",))
        def one(self, x=0, *rest, **kw):
            """One"""
            self.calls += 1
            return (self.a, x, rest, tuple(sorted(kw.items())))

        @Cached.method(attrs=("a", "b"))
        def two(self):
            """Two"""
            self.calls += 1
            return (self.a, self.b)

        @Cached.method(attrs=("missing",))
        def bad(self):
            self.calls += 1
            return 1

        @Cached.method(name="noisy")
        def noisy(self):
            return 7

    class Owner(Cached):
        def __init__(self, inner):
            self.inner = inner

        def __cache_state__(self):
            return (self.inner,)

        @Cached.method(name="own")
        def own(self, k):
            """Own"""
            return (k, self.inner.counter)

    def stats(c):
        out = []
        for n in ("plain", "one", "two", "bad", "noisy"):
            i = getattr(c, n).cache_info()
            out.append((n, i.hits, i.misses, i.maxsize, i.currsize))
        return tuple(out)

    X, Y = Foo(), Foo()
    for m in ("plain", "one", "two", "bad", "noisy"):
        f = getattr(Foo, m)
        rec(f"A.meta.{m}", (f.__name__, f.__doc__, f.__qualname__,
                            hasattr(f, "cache_clear"),
                            hasattr(f, "cache_info"),
                            hasattr(f, "__wrapped__")))
    rec("A.eq", (X == X, X == Y, X != Y, Y == Y, X == 3, X in [Y], X in [X]))
    h0 = hash(X)
    X.counter += 1
    rec("A.hash", (h0 == hash(X), hash(X) == hash((id(X), 1)),
                   hash(Y) == hash((id(Y), 0))))
    X.counter -= 1
    for step in range(3):
        for obj, nm in ((X, "X"), (Y, "Y")):
            attempt(f"A.{step}.{nm}.plain1", obj.plain, 1)
            attempt(f"A.{step}.{nm}.plain1b", obj.plain, 1)
            attempt(f"A.{step}.{nm}.plain1f", obj.plain, 1.0)
            attempt(f"A.{step}.{nm}.plainkw", obj.plain, x=1)
            attempt(f"A.{step}.{nm}.plain12", obj.plain, 1, y=2)
            attempt(f"A.{step}.{nm}.plainerr", obj.plain)
            attempt(f"A.{step}.{nm}.plainunh", obj.plain, [1])
            attempt(f"A.{step}.{nm}.one", obj.one)
            attempt(f"A.{step}.{nm}.one5", obj.one, 5)
            attempt(f"A.{step}.{nm}.one567", obj.one, 5, 6, 7, k=1, j=2)
            attempt(f"A.{step}.{nm}.one567b", obj.one, 5, 6, 7, j=2, k=1)
            attempt(f"A.{step}.{nm}.two", obj.two)
            attempt(f"A.{step}.{nm}.bad", obj.bad)
            attempt(f"A.{step}.{nm}.noisy", obj.noisy)
            rec(f"A.{step}.{nm}.calls", obj.calls)
            rec(f"A.{step}.{nm}.stats", stats(obj))
            obj.a += step
            attempt(f"A.{step}.{nm}.one_a", obj.one, 5)
            attempt(f"A.{step}.{nm}.two_a", obj.two)
            obj.b = obj.b + "y"
            attempt(f"A.{step}.{nm}.two_b", obj.two)
            obj.b = obj.b[:-1]
            attempt(f"A.{step}.{nm}.two_b0", obj.two)
            obj.counter += 1
            attempt(f"A.{step}.{nm}.plain_c", obj.plain, 1)
            attempt(f"A.{step}.{nm}.two_c", obj.two)
            obj.counter -= 1
            attempt(f"A.{step}.{nm}.plain_c0", obj.plain, 1)
            rec(f"A.{step}.{nm}.calls2", obj.calls)
            rec(f"A.{step}.{nm}.stats2", stats(obj))
        X.missing = step
        if step == 1:
            X.cache_clear(prefix="p")
            rec("A.clear.p", stats(X))
            X.cache_clear(prefix="zzz")
            rec("A.clear.zzz", stats(X))
            Y.cache_clear()
            rec("A.clear.all", stats(X))
    X.silence_level = 0
    attempt("A.noisy.loud", X.noisy)
    X.counter += 5
    attempt("A.noisy.loud2", X.noisy)
    attempt("A.one.loud", X.one, 99)
    O = Owner(X)
    attempt("A.own1", O.own, 1)
    attempt("A.own1b", O.own, 1)
    X.counter += 1
    attempt("A.own1c", O.own, 1)
    rec("A.own.info", tuple(O.own.cache_info()))
    O.cache_clear(prefix="pl")
    rec("A.own.clear.pl", (tuple(O.own.cache_info()), stats(X)))
    O.cache_clear()
    rec("A.own.clear", (tuple(O.own.cache_info()), stats(X)))
    for bad_kw in ({"attrs": ()}, {"attrs": ["a"]}, {"attrs": ("a", 1)},
                   {"name": 3}, {"attrs": "a"}):
        attempt(f"A.decor.{sorted(bad_kw)}.{bad_kw}",
                lambda kw=bad_kw: Cached.method(**kw) and None)
    attempt("A.abstract", lambda: Cached() and None)
    # cache disabled at class definition
    Cached.cache_enable = False
    try:
        class Off(Cached):
            def __cache_state__(self):
                return ()

            @Cached.method(name="off", attrs=("q",))
            def off(self, x):
                """Off"""
                return x
    finally:
        Cached.cache_enable = True
    rec("A.off", (Off().off(3), hasattr(Off.off, "cache_clear"),
                  Off.off.__doc__))
    rec("A.stdout", buf.getvalue())
    buf.seek(0)
    buf.truncate()

    # ------------------------------------------------------------------
    # B. Network
    # ------------------------------------------------------------------
    def net_state(net):
        return (net.directed, net.N, net.n_links, float(net.link_density).hex(),
                net._mut_A, net._mut_nw, net._mut_la,
                tuple(type(c).__name__ if isinstance(c, Cached) else c
                      for c in net.__cache_state__()),
                str(net.sp_dtype), net.sp_A.dtype.str, net.sp_A.format,
                float(net.mean_node_weight).hex(),
                float(net.total_node_weight).hex(),
                net.graph.vcount(), net.graph.ecount(),
                net.graph.is_directed(),
                tuple(sorted(net.graph.es.attributes())))

    def net_measures(tag, net, with_la=None):
        rec(f"{tag}.state", net_state(net))
        attempt(f"{tag}.adj", lambda: net.adjacency)
        attempt(f"{tag}.nw", lambda: net.node_weights)
        attempt(f"{tag}.degree", net.degree)
        attempt(f"{tag}.indegree", net.indegree)
        attempt(f"{tag}.nsi_degree", net.nsi_degree)
        attempt(f"{tag}.local_clustering", net.local_clustering)
        attempt(f"{tag}.nsi_local_clustering", net.nsi_local_clustering)
        attempt(f"{tag}.transitivity", net.transitivity)
        attempt(f"{tag}.path_lengths", net.path_lengths)
        attempt(f"{tag}.apl", net.average_path_length)
        attempt(f"{tag}.closeness", net.closeness)
        attempt(f"{tag}.nsi_closeness", net.nsi_closeness)
        attempt(f"{tag}.betweenness", net.betweenness)
        attempt(f"{tag}.nsi_betweenness", net.nsi_betweenness)
        attempt(f"{tag}.laplacian", net.laplacian)
        attempt(f"{tag}.nsi_laplacian", net.nsi_laplacian)
        attempt(f"{tag}.str", lambda: str(net))
        if with_la is not None:
            attempt(f"{tag}.la", net.link_attribute, with_la)
            attempt(f"{tag}.degree_la", net.degree, with_la)
            attempt(f"{tag}.nsi_degree_la", net.nsi_degree, with_la)
            attempt(f"{tag}.cyc_la", net.local_cyclemotif_clustering,
                    with_la)
            attempt(f"{tag}.nsi_cyc_la",
                    net.nsi_local_cyclemotif_clustering, with_la)
            attempt(f"{tag}.apl_la", net.average_path_length, with_la)
            attempt(f"{tag}.pl_la", net.path_lengths, with_la)
            attempt(f"{tag}.clos_la", net.closeness, with_la)
        rec(f"{tag}.state2", net_state(net))

    def rand_adj(rng, n, p, directed):
        A = (rng.random((n, n)) < p).astype(int)
        np.fill_diagonal(A, 0)
        if not directed:
            A = np.triu(A, 1)
            A = A + A.T
        return A

    rng = np.random.default_rng(20240101)
    for case, (n, p, directed) in enumerate(
            [(6, 0.5, False), (9, 0.35, True), (14, 0.25, False),
             (5, 0.0, False), (7, 1.0, True)]):
        tag = f"B{case}"
        A0 = rand_adj(rng, n, p, directed)
        w0 = rng.random(n) + 0.5
        net = Network(adjacency=A0, directed=directed, node_weights=w0,
                      silence_level=2)
        net_measures(f"{tag}.s0", net)
        # node weights
        net.node_weights = rng.random(n) + 1.0
        net_measures(f"{tag}.s1", net)
        net.node_weights = None
        net_measures(f"{tag}.s2", net)
        attempt(f"{tag}.nw_err", lambda: setattr(
            net, "node_weights", np.ones(n + 1)))
        rec(f"{tag}.nw_err.state", net_state(net))
        attempt(f"{tag}.nw_err2", lambda: setattr(net, "node_weights", 3))
        rec(f"{tag}.nw_err2.state", net_state(net))
        # link attributes
        W = rng.random((n, n))
        W = W + W.T
        net.set_link_attribute("w", W)
        net_measures(f"{tag}.s3", net, "w")
        net.set_link_attribute("w", 2 * W + 1)
        net_measures(f"{tag}.s4", net, "w")
        attempt(f"{tag}.la_err", net.set_link_attribute, "v", W[:2, :2])
        rec(f"{tag}.la_err.state", net_state(net))
        net.del_link_attribute("nope")
        rec(f"{tag}.del_nope.state", net_state(net))
        net.del_link_attribute("w")
        net_measures(f"{tag}.s5", net, "w")
        net.del_link_attribute("v")
        rec(f"{tag}.del_v.state", net_state(net))
        # new adjacency, same and different size
        A1 = rand_adj(rng, n, min(1.0, p + 0.2), directed)
        net.adjacency = A1
        net_measures(f"{tag}.s6", net)
        A2 = rand_adj(rng, n + 3, 0.4, directed)
        net.adjacency = A2
        attempt(f"{tag}.s7.degree", net.degree)
        rec(f"{tag}.s7.state", net_state(net))
        net.node_weights = None
        net_measures(f"{tag}.s7", net)
        attempt(f"{tag}.adj_err", lambda: setattr(
            net, "adjacency", np.ones((3, 4), dtype=int)))
        rec(f"{tag}.adj_err.spA_none", net.sp_A is None)
        rec(f"{tag}.adj_err.muts", (net._mut_A, net._mut_nw, net._mut_la))
        net.adjacency = A2
        # edge list
        el = np.argwhere(np.triu(A1, 1) if not directed else A1)
        if len(el):
            net.set_edge_list(el)
            attempt(f"{tag}.s8.degree", net.degree)
            rec(f"{tag}.s8.state", net_state(net))
            net.set_edge_list(el.tolist(), n_nodes=n + 1)
            net.node_weights = rng.random(n + 1)
            net_measures(f"{tag}.s9", net)
        # re-running the constructor on the live object
        Network.__init__(net, adjacency=A0, directed=not directed
                         if not directed else directed,
                         node_weights=w0, silence_level=2)
        net_measures(f"{tag}.s10", net)
        Network.__init__(net, edge_list=[[0, 1], [1, 2], [2, 0]],
                         n_nodes=4, directed=directed, silence_level=2)
        net_measures(f"{tag}.s11", net)
        attempt(f"{tag}.ctor_err", lambda: Network.__init__(
            net, directed=directed, silence_level=2))
        rec(f"{tag}.ctor_err.muts", (net._mut_A, net._mut_nw, net._mut_la,
                                     net.N, net.sp_A is None))
        # fresh object comparison
        fresh = Network(adjacency=A0, directed=directed, node_weights=w0,
                        silence_level=2)
        net_measures(f"{tag}.fresh", fresh)
        rec(f"{tag}.eqhash", (net == fresh, net == net,
                              hash(fresh) == hash((id(fresh),) +
                                                  fresh.__cache_state__())))
        cp = fresh.copy()
        rec(f"{tag}.copy", net_state(cp))
        sc = attempt(f"{tag}.split", lambda: net_state(
            fresh.splitted_copy(node=1, proportion=0.3)))
    attempt("B.ctor_none", lambda: Network(silence_level=2) and None)
    stn = Network.SmallTestNetwork()
    net_measures("B.small", stn, "link_weight")
    for _m in ("degree", "nsi_degree", "path_lengths", "closeness",
               "nsi_closeness", "local_clustering", "betweenness",
               "nsi_local_cyclemotif_clustering"):
        _f = getattr(Network, _m)
        rec(f"B.info.{_m}", tuple(_f.cache_info())
            if hasattr(_f, "cache_info") else None)
    rec("B.stdout", buf.getvalue())
    buf.seek(0)
    buf.truncate()

    # ------------------------------------------------------------------
    # C. RecurrenceNetwork / RecurrencePlot
    # ------------------------------------------------------------------
    def rn_state(rn):
        return (rn.N, rn.n_links, rn.directed, rn._mut_A, rn._mut_nw,
                rn._mut_la, rn._mut_R, rn._mut_embedding,
                rn.__cache_state__(), rn.R.shape, str(rn.R.dtype),
                rn.silence_level, rn.graph.vcount(), rn.graph.ecount(),
                repr(rn.threshold))

    def rn_measures(tag, rn):
        rec(f"{tag}.state", rn_state(rn))
        attempt(f"{tag}.R", rn.recurrence_matrix)
        attempt(f"{tag}.adj", lambda: rn.adjacency)
        attempt(f"{tag}.nw", lambda: rn.node_weights)
        attempt(f"{tag}.degree", rn.degree)
        attempt(f"{tag}.nsi_degree", rn.nsi_degree)
        attempt(f"{tag}.transitivity", rn.transitivity)
        attempt(f"{tag}.local_clustering", rn.local_clustering)
        attempt(f"{tag}.apl", rn.average_path_length)
        attempt(f"{tag}.rr", rn.recurrence_rate)
        attempt(f"{tag}.det", rn.determinism)
        attempt(f"{tag}.lam", rn.laminarity)
        attempt(f"{tag}.diagline", rn.diagline_dist)
        attempt(f"{tag}.vertline", rn.vertline_dist)
        attempt(f"{tag}.dist", lambda: rn.distance_matrix(rn.metric))
        attempt(f"{tag}.str", lambda: str(rn))
        rec(f"{tag}.state2", rn_state(rn))

    rng = np.random.default_rng(77)
    series = [
        ("sin", np.sin(np.linspace(0, 14 * np.pi, 90)) +
         0.1 * rng.standard_normal(90)),
        ("rw", np.cumsum(rng.standard_normal(60))),
        ("2d", rng.standard_normal((40, 2))),
    ]
    for name, ts in series:
        for ci, (metric, kw) in enumerate([
                ("supremum", {"threshold": 0.4}),
                ("euclidean", {"recurrence_rate": 0.15, "dim": 2, "tau": 3}
                 if ts.ndim == 1 else {"recurrence_rate": 0.15}),
                ("manhattan", {"local_recurrence_rate": 0.1}),
                ("supremum", {"threshold_std": 0.3,
                              "node_weights": np.arange(1.0, len(ts) + 1)}),
                ]):
            tag = f"C.{name}.{ci}"
            rn = RecurrenceNetwork(ts, metric=metric, silence_level=2, **kw)
            rn_measures(f"{tag}.s0", rn)
            rn.set_fixed_threshold(0.7)
            rn_measures(f"{tag}.s1", rn)
            rn.node_weights = np.linspace(1, 2, rn.N)
            rn.set_link_attribute("d", rn.distance_matrix(metric))
            attempt(f"{tag}.s1.strength", rn.nsi_degree, "d")
            rn.set_fixed_recurrence_rate(0.2)
            rn_measures(f"{tag}.s2", rn)
            attempt(f"{tag}.s2.strength", rn.nsi_degree, "d")
            rn.set_fixed_threshold_std(0.5)
            rn_measures(f"{tag}.s3", rn)
            rn.set_fixed_local_recurrence_rate(0.12)
            rn_measures(f"{tag}.s4", rn)
            attempt(f"{tag}.anbh", rn.set_adaptive_neighborhood_size, 3)
            rn_measures(f"{tag}.s5", rn)
            # new embedding, then new threshold
            if ts.ndim == 1:
                rn.embedding = rn.embed_time_series(ts, 3, 2)
            else:
                rn.embedding = ts[5:-3]
            rec(f"{tag}.emb.state", (rn.N, rn._mut_embedding, rn._mut_A,
                                     rn.__cache_state__()))
            attempt(f"{tag}.emb.dist", lambda: rn.distance_matrix(metric))
            rn.set_fixed_threshold(0.9)
            rn_measures(f"{tag}.s6", rn)
            rn.set_fixed_threshold(0.25)
            rn_measures(f"{tag}.s7", rn)
            attempt(f"{tag}.thr_err", rn.set_fixed_threshold, "abc")
            rec(f"{tag}.thr_err.muts", (rn._mut_A, rn._mut_nw, rn._mut_la,
                                        rn._mut_R, rn._mut_embedding))
    # missing values
    ts = np.sin(np.linspace(0, 8 * np.pi, 50))
    ts[[7, 23, 24]] = np.nan
    for kw in ({"threshold": 0.3}, {"recurrence_rate": 0.2},
               {"local_recurrence_rate": 0.2}):
        tag = f"C.nan.{sorted(kw)}"
        rn = attempt(f"{tag}.ctor", lambda: RecurrenceNetwork(
            ts, missing_values=True, silence_level=2, **kw) and "ok")
        try:
            rn = RecurrenceNetwork(ts, missing_values=True, silence_level=2,
                                   **kw)
        except Exception:  # pylint: disable=broad-except
            continue
        rn_measures(f"{tag}.s0", rn)
        attempt(f"{tag}.set_thr", rn.set_fixed_threshold, 0.5)
        attempt(f"{tag}.s1.state", lambda: rn_state(rn))
        attempt(f"{tag}.s1.degree", rn.degree)
        attempt(f"{tag}.set_rr", rn.set_fixed_recurrence_rate, 0.1)
        attempt(f"{tag}.s2.state", lambda: rn_state(rn))
        attempt(f"{tag}.s2.degree", rn.degree)
        attempt(f"{tag}.set_lrr", rn.set_fixed_local_recurrence_rate, 0.1)
        attempt(f"{tag}.s3.state", lambda: rn_state(rn))
        attempt(f"{tag}.s3.adj", lambda: rn.adjacency)
        attempt(f"{tag}.set_std", rn.set_fixed_threshold_std, 0.1)
        attempt(f"{tag}.s4.state", lambda: rn_state(rn))
        attempt(f"{tag}.s4.adj", lambda: rn.adjacency)
    attempt("C.noarg", lambda: RecurrenceNetwork(ts, silence_level=2) and 0)
    rp = RecurrencePlot(series[0][1], threshold=0.3, silence_level=2)
    attempt("C.rp.det", rp.determinism)
    rp.set_fixed_threshold(0.6)
    attempt("C.rp.det2", rp.determinism)
    rec("C.rp.state", (rp._mut_R, rp._mut_embedding, rp.__cache_state__()))
    rec("C.stdout", buf.getvalue())
    buf.seek(0)
    buf.truncate()

    # ------------------------------------------------------------------
    # D. ClimateNetwork
    # ------------------------------------------------------------------
    def cn_state(cn):
        return (cn.N, cn.n_links, cn.directed, cn._mut_A, cn._mut_nw,
                cn._mut_la, cn._mut_clim,
                tuple(type(c).__name__ if isinstance(c, Cached) else c
                      for c in cn.__cache_state__()),
                float(cn.link_density).hex(), repr(cn.threshold()),
                cn.non_local(), cn.node_weight_type)

    def cn_measures(tag, cn):
        rec(f"{tag}.state", cn_state(cn))
        attempt(f"{tag}.adj", lambda: cn.adjacency)
        attempt(f"{tag}.nw", lambda: cn.node_weights)
        attempt(f"{tag}.degree", cn.degree)
        attempt(f"{tag}.nsi_degree", cn.nsi_degree)
        attempt(f"{tag}.corrdist", cn.correlation_distance)
        attempt(f"{tag}.corrdist_clos",
                cn.correlation_distance_weighted_closeness)
        attempt(f"{tag}.closeness", cn.closeness)
        attempt(f"{tag}.sim", cn.similarity_measure)
        attempt(f"{tag}.str", lambda: str(cn))
        rec(f"{tag}.state2", cn_state(cn))

    cn = ClimateNetwork.SmallTestNetwork()
    cn.silence_level = 2
    cn_measures("D.s0", cn)
    cn.set_threshold(0.7)
    cn_measures("D.s1", cn)
    cn.set_link_density(0.6)
    cn_measures("D.s2", cn)
    cn.set_non_local(True)
    cn_measures("D.s3", cn)
    cn.set_non_local(True)
    cn_measures("D.s4", cn)
    cn.set_non_local(False)
    cn_measures("D.s5", cn)
    attempt("D.nwt", lambda: cn.set_node_weight_type("sqrtcos"))
    cn_measures("D.s6", cn)
    cn._regenerate_network()
    cn_measures("D.s7", cn)
    cn.set_threshold(0.3)
    cn.node_weights = np.arange(1.0, cn.N + 1)
    cn.set_link_attribute("x", np.arange(36.0).reshape(6, 6))
    cn_measures("D.s8", cn)
    cn._regenerate_network()
    cn_measures("D.s9", cn)
    rng = np.random.default_rng(5)
    S = rng.random((6, 6))
    S = (S + S.T) / 2
    for directed in (False, True):
        for kw in ({"threshold": 0.5}, {"link_density": 0.4},
                   {"threshold": 0.4, "non_local": True}, {}):
            tag = f"D.new.{directed}.{sorted(kw.items())}"
            c2 = attempt(f"{tag}.ctor", lambda: ClimateNetwork(
                grid=cn.grid, similarity_measure=S, directed=directed,
                silence_level=2, **kw) and "ok")
            try:
                c2 = ClimateNetwork(grid=cn.grid, similarity_measure=S,
                                    directed=directed, silence_level=2, **kw)
            except Exception:  # pylint: disable=broad-except
                continue
            cn_measures(f"{tag}.s0", c2)
            c2.set_threshold(0.6)
            cn_measures(f"{tag}.s1", c2)
            c2.set_link_density(0.3)
            cn_measures(f"{tag}.s2", c2)
    rec("D.stdout", buf.getvalue())

digest = hashlib.sha256("\n".join(LOG).encode()).hexdigest()
if "-v" in sys.argv:
    print("\n".join(LOG))
print(f"records={len(LOG)} digest={digest}")
