"""Equivalence digest for visibility-graph mechanism (property C14)."""
import hashlib
import numpy as np

from pyunicorn.timeseries import VisibilityGraph
from pyunicorn.timeseries._ext.numerics import (
    _visibility_relations_missingvalues,
    _visibility_relations_no_missingvalues,
    _visibility_relations_horizontal,
    _retarded_local_clustering, _advanced_local_clustering)

H = hashlib.sha256()


def put(tag, val):
    H.update(tag.encode())
    if isinstance(val, np.ndarray):
        H.update(str(val.dtype).encode())
        H.update(repr(val.shape).encode())
        H.update(np.ascontiguousarray(val).tobytes())
    else:
        H.update(repr(val).encode())


def attempt(tag, fn):
    try:
        res = fn()
    except Exception as e:  # pylint: disable=broad-except
        put(tag, ("EXC", type(e).__name__, str(e)))
        return None
    if isinstance(res, tuple):
        for n, r in enumerate(res):
            put(f"{tag}.{n}", r)
    else:
        put(tag, res)
    return res


def series(rng, n, kind):
    if kind == 0:
        return rng.standard_normal(n)
    if kind == 1:                      # many ties
        return rng.integers(0, 4, n).astype(float)
    if kind == 2:                      # monotone / collinear
        return np.arange(n, dtype=float) * 0.5
    if kind == 3:                      # convex
        return (np.arange(n, dtype=float) - n / 2.) ** 2
    if kind == 4:                      # concave
        return -(np.arange(n, dtype=float) - n / 2.) ** 2
    if kind == 5:                      # constants
        return np.ones(n)
    return np.cumsum(rng.standard_normal(n)) * 1e3


def measures(tag, vg):
    put(tag + ".A", vg.adjacency)
    attempt(tag + ".rd", vg.retarded_degree)
    attempt(tag + ".ad", vg.advanced_degree)
    attempt(tag + ".deg", vg.degree)
    attempt(tag + ".rc", vg.retarded_local_clustering)
    attempt(tag + ".ac", vg.advanced_local_clustering)
    attempt(tag + ".bcd", vg.boundary_corrected_degree)
    put(tag + ".vis", vg.visibility(0, vg.N - 1))
    put(tag + ".vs", vg.visibility_single(vg.N // 2))
    put(tag + ".state", sorted(k for k in vg.__dict__ if not k.startswith("_")))


def build(tag, **kw):
    def make():
        return VisibilityGraph(silence_level=2, **kw)
    try:
        vg = make()
    except Exception as e:  # pylint: disable=broad-except
        put(tag, ("EXC", type(e).__name__, str(e)))
        return None
    measures(tag, vg)
    return vg


rng = np.random.default_rng(20240914)

# --- class level -----------------------------------------------------------
for n in (1, 2, 3, 4, 5, 8, 17, 40, 75):
    for kind in range(7):
        x = series(rng, n, kind)
        for horizontal in (False, True):
            tag = f"vg.{n}.{kind}.{int(horizontal)}"
            build(tag, time_series=x, horizontal=horizontal)
            # irregular increasing timings
            t = np.cumsum(rng.uniform(0.1, 2.0, n))
            build(tag + ".t", time_series=x, timings=t,
                  horizontal=horizontal)
            # missing values
            xm = x.copy()
            if n > 2:
                xm[rng.integers(0, n, max(1, n // 6))] = np.nan
            build(tag + ".mv", time_series=xm, timings=t,
                  missing_values=True, horizontal=horizontal)
            # NaNs without the missing_values flag
            build(tag + ".nanraw", time_series=xm, horizontal=horizontal)
            # infinities
            xi = x.copy()
            if n > 3:
                xi[1] = np.inf
                xi[n - 2] = -np.inf
            build(tag + ".inf", time_series=xi, horizontal=horizontal)

# duplicate / decreasing timings -> ZeroDivisionError or other behaviour
x = rng.standard_normal(12)
t = np.arange(12, dtype=float)
t[5] = t[4]
build("dup_t", time_series=x, timings=t)
build("dup_t.mv", time_series=x, timings=t, missing_values=True)
build("dec_t", time_series=x, timings=t[::-1].copy())
t2 = np.arange(12, dtype=float)
t2[7] = t2[3]
build("dup_t2", time_series=x, timings=t2)
build("dup_t2.mv", time_series=x, timings=t2, missing_values=True)
build("short_t", time_series=x, timings=np.arange(9, dtype=float))
build("short_t.mv", time_series=x, timings=np.arange(9, dtype=float),
      missing_values=True)
build("int_series", time_series=np.arange(9) % 4)
build("list_series", time_series=[1., 3., 2., 5.])

# re-computation on an existing object, changed state
vg = VisibilityGraph(rng.standard_normal(20), silence_level=2)
put("re.A0", vg.visibility_relations())
put("re.H0", vg.visibility_relations_horizontal())
vg.missing_values = True
attempt("re.nomvattr", vg.visibility_relations)
vg.missing_value_indices = rng.uniform(size=20) < 0.3
put("re.A1", vg.visibility_relations())
vg.missing_value_indices = np.zeros(15, dtype=bool)
attempt("re.shortmv", vg.visibility_relations)
vg.missing_value_indices = np.zeros(19, dtype=bool)
attempt("re.shortmv19", vg.visibility_relations)
vg.missing_value_indices = np.ones(20, dtype=bool)
put("re.A2", vg.visibility_relations())
vg.missing_values = False
# user-modified adjacency (weights, self loops are dropped by igraph only)
B = rng.integers(0, 3, (20, 20))
B = B + B.T
vg.adjacency = B
measures("re.B", vg)
vg.adjacency = (rng.uniform(size=(9, 9)) < 0.5).astype(int)
measures("re.C", vg)

# --- kernel level ----------------------------------------------------------
F = np.float32
for n in (0, 1, 2, 3, 4, 6, 13, 31):
    for kind in range(7):
        x = series(rng, n, kind).astype(F)
        t = np.cumsum(rng.uniform(0.1, 2.0, n)).astype(F)
        mv = rng.uniform(size=n) < 0.25
        xm = x.copy()
        xm[mv] = np.nan
        tag = f"k.{n}.{kind}"

        def run_nm(x=x, t=t, n=n):
            A = np.zeros((n, n), dtype=np.int8)
            r = _visibility_relations_no_missingvalues(x, t, n, A)
            return A, r

        def run_mv(xm=xm, t=t, n=n, mv=mv):
            A = np.zeros((n, n), dtype=np.int8)
            r = _visibility_relations_missingvalues(xm, t, n, A, mv)
            return A, r

        def run_mv_arbitrary(x=x, t=t, n=n, mv=mv):
            # mask not tied to NaNs
            A = np.zeros((n, n), dtype=np.int8)
            r = _visibility_relations_missingvalues(x, t, n, A, mv)
            return A, r

        def run_h(x=x, n=n):
            A = np.zeros((n, n), dtype=np.int8)
            r = _visibility_relations_horizontal(x, n, A)
            return A, r

        def run_h_nan(xm=xm, n=n):
            A = np.zeros((n, n), dtype=np.int8)
            r = _visibility_relations_horizontal(xm, n, A)
            return A, r

        def run_nm_prefilled(x=x, t=t, n=n):
            A = np.full((n, n), 7, dtype=np.int8)
            _visibility_relations_no_missingvalues(x, t, n, A)
            return A

        attempt(tag + ".nm", run_nm)
        attempt(tag + ".mv", run_mv)
        attempt(tag + ".mva", run_mv_arbitrary)
        attempt(tag + ".h", run_h)
        attempt(tag + ".hn", run_h_nan)
        attempt(tag + ".pre", run_nm_prefilled)

# kernels: wrong sizes -> IndexError, A left partially filled
x = rng.standard_normal(10).astype(F)
t = np.arange(10, dtype=F)
for nn in (11, 12, 15):
    for lab, call in (
        ("nm", lambda A, nn=nn: _visibility_relations_no_missingvalues(
            x, t, nn, A)),
        ("mv", lambda A, nn=nn: _visibility_relations_missingvalues(
            x, t, nn, A, np.zeros(nn, dtype=bool))),
        ("mvs", lambda A, nn=nn: _visibility_relations_missingvalues(
            x, t, 10, A, np.zeros(nn - 3, dtype=bool))),
        ("h", lambda A, nn=nn: _visibility_relations_horizontal(x, nn, A)),
    ):
        A = np.zeros((nn, nn), dtype=np.int8)
        attempt(f"oob.{lab}.{nn}", lambda A=A, call=call: call(A))
        put(f"oob.{lab}.{nn}.A", A)
A = np.zeros((6, 6), dtype=np.int8)
attempt("smallA.nm", lambda: _visibility_relations_no_missingvalues(
    x, t, 10, A))
put("smallA.nm.A", A)
A = np.zeros((6, 6), dtype=np.int8)
attempt("smallA.h", lambda: _visibility_relations_horizontal(x, 10, A))
put("smallA.h.A", A)
A = np.zeros((6, 6), dtype=np.int8)
attempt("smallA.mv", lambda: _visibility_relations_missingvalues(
    x, t, 10, A, np.zeros(10, dtype=bool)))
put("smallA.mv.A", A)
attempt("dtype.nm", lambda: _visibility_relations_no_missingvalues(
    x.astype(float), t, 10, np.zeros((10, 10), dtype=np.int8)))
attempt("none.h", lambda: _visibility_relations_horizontal(
    None, 3, np.zeros((3, 3), dtype=np.int8)))
tz = t.copy()
tz[6] = tz[2]
A = np.zeros((10, 10), dtype=np.int8)
attempt("zero.nm", lambda: _visibility_relations_no_missingvalues(
    x, tz, 10, A))
put("zero.nm.A", A)
A = np.zeros((10, 10), dtype=np.int8)
attempt("zero.mv", lambda: _visibility_relations_missingvalues(
    x, tz, 10, A, np.arange(10) == 4))
put("zero.mv.A", A)

# non-square / undersized A: which stores happen before the IndexError
xs = np.array([5, 1, 2, 1, 6, 0, 3, 1, 0, 7], dtype=F)
for shape in ((6, 10), (10, 6), (3, 10), (10, 3), (9, 10), (10, 9), (1, 1)):
    A = np.zeros(shape, dtype=np.int8)
    attempt(f"rect.nm.{shape}", lambda: _visibility_relations_no_missingvalues(
        xs, t, 10, A))
    put(f"rect.nm.{shape}.A", A)
    A = np.zeros(shape, dtype=np.int8)
    attempt(f"rect.h.{shape}", lambda: _visibility_relations_horizontal(
        xs, 10, A))
    put(f"rect.h.{shape}.A", A)
    A = np.zeros(shape, dtype=np.int8)
    attempt(f"rect.mv.{shape}", lambda: _visibility_relations_missingvalues(
        xs, t, 10, A, np.arange(10) == 7))
    put(f"rect.mv.{shape}.A", A)
    # monotone series: only trivial links, failure in the second loop
    A = np.zeros(shape, dtype=np.int8)
    attempt(f"rect.nm2.{shape}", lambda: _visibility_relations_no_missingvalues(
        -t * t, t, 10, A))
    put(f"rect.nm2.{shape}.A", A)
    A = np.zeros(shape, dtype=np.int8)
    attempt(f"rect.h2.{shape}", lambda: _visibility_relations_horizontal(
        t, 10, A))
    put(f"rect.h2.{shape}.A", A)
    A = np.zeros(shape, dtype=np.int8)
    attempt(f"rect.mv2.{shape}", lambda: _visibility_relations_missingvalues(
        -t * t, t, 10, A, np.arange(10) == 20))
    put(f"rect.mv2.{shape}.A", A)

# clustering kernels
for n in (0, 1, 2, 3, 5, 9, 20):
    for p in (0.2, 0.6, 1.0):
        A = (rng.uniform(size=(n, n)) < p).astype(np.int8)
        A = np.triu(A, 1)
        A = (A + A.T).astype(np.int8)
        for lab, Ause in (("sym", A),
                          ("asym", (rng.uniform(size=(n, n)) < p
                                    ).astype(np.int8)),
                          ("w", (A * rng.integers(0, 3, (n, n))
                                 ).astype(np.int8))):
            norm = rng.integers(0, 4, n).astype(float)
            norm2 = norm.copy()
            if n:
                norm2[0] = -0.0
                norm2[-1] = np.nan
            for nl, nm in (("a", norm), ("b", norm2)):
                out = np.full(n, -5.0)
                attempt(f"cl.r.{n}.{p}.{lab}.{nl}",
                        lambda: _retarded_local_clustering(n, Ause, nm, out))
                put(f"cl.r.{n}.{p}.{lab}.{nl}.o", out)
                out = np.full(n, -5.0)
                attempt(f"cl.a.{n}.{p}.{lab}.{nl}",
                        lambda: _advanced_local_clustering(n, Ause, nm, out))
                put(f"cl.a.{n}.{p}.{lab}.{nl}.o", out)
# clustering kernels with inconsistent sizes
A = np.ones((5, 5), dtype=np.int8)
for nn in (6, 7, 9):
    out = np.full(nn, -5.0)
    attempt(f"cl.oob.r.{nn}", lambda: _retarded_local_clustering(
        nn, A, np.ones(nn), out))
    put(f"cl.oob.r.{nn}.o", out)
    out = np.full(nn, -5.0)
    attempt(f"cl.oob.a.{nn}", lambda: _advanced_local_clustering(
        nn, A, np.ones(nn), out))
    put(f"cl.oob.a.{nn}.o", out)
    out = np.full(3, -5.0)
    attempt(f"cl.oobn.r.{nn}", lambda: _retarded_local_clustering(
        5, A, np.ones(3), out))
    put(f"cl.oobn.r.{nn}.o", out)
    out = np.full(2, -5.0)
    attempt(f"cl.oobn.a.{nn}", lambda: _advanced_local_clustering(
        5, A, np.ones(5), out))
    put(f"cl.oobn.a.{nn}.o", out)
A0 = np.zeros((5, 5), dtype=np.int8)
for nn in (6, 7, 9):
    out = np.full(nn, -5.0)
    attempt(f"cl0.oob.r.{nn}", lambda: _retarded_local_clustering(
        nn, A0, np.ones(nn), out))
    put(f"cl0.oob.r.{nn}.o", out)
    out = np.full(nn, -5.0)
    attempt(f"cl0.oob.a.{nn}", lambda: _advanced_local_clustering(
        nn, A0, np.ones(nn), out))
    put(f"cl0.oob.a.{nn}.o", out)

# clustering kernels: A too small and output too short at the same node,
# None arguments, NaN / negative normalisation
for shape, nn, on in (((7, 3), 7, 4), ((3, 7), 7, 4), ((7, 3), 7, 7),
                      ((3, 7), 7, 7), ((7, 7), 7, 0), ((4, 4), 7, 2),
                      ((7, 5), 7, 1), ((5, 7), 7, 1)):
    for fill in (0, 1):
        Ar = np.full(shape, fill, dtype=np.int8)
        for lab, kern in (("r", _retarded_local_clustering),
                          ("a", _advanced_local_clustering)):
            out = np.full(on, -5.0)
            attempt(f"cl.mix.{lab}.{shape}.{on}.{fill}",
                    lambda: kern(nn, Ar, np.full(nn, 2.5), out))
            put(f"cl.mix.{lab}.{shape}.{on}.{fill}.o", out)
            out = np.full(nn, -5.0)
            attempt(f"cl.mixn.{lab}.{shape}.{on}.{fill}",
                    lambda: kern(nn, Ar, np.full(on, 2.5), out))
            put(f"cl.mixn.{lab}.{shape}.{on}.{fill}.o", out)
for lab, kern in (("r", _retarded_local_clustering),
                  ("a", _advanced_local_clustering)):
    for nn in (0, 1, 2, 3, 4):
        out = np.full(nn, -5.0)
        attempt(f"cl.none.{lab}.{nn}",
                lambda: kern(nn, None, np.ones(nn), out))
        put(f"cl.none.{lab}.{nn}.o", out)
        out = np.full(nn, -5.0)
        attempt(f"cl.nonen.{lab}.{nn}",
                lambda: kern(nn, np.ones((nn, nn), dtype=np.int8), None, out))
        put(f"cl.nonen.{lab}.{nn}.o", out)
        attempt(f"cl.noneo.{lab}.{nn}",
                lambda: kern(nn, np.ones((nn, nn), dtype=np.int8),
                             np.ones(nn), None))
    attempt(f"cl.dtype.{lab}",
            lambda: kern(4, np.ones((4, 4), dtype=np.int16), np.ones(4),
                         np.zeros(4)))
    attempt(f"cl.ndim.{lab}",
            lambda: kern(4, np.ones(4, dtype=np.int8), np.ones(4),
                         np.zeros(4)))
    An = np.ones((6, 6), dtype=np.int8)
    An[2, 4] = An[4, 2] = -1
    An[1, 3] = 2
    for nm in (np.array([np.nan, -1., np.inf, -np.inf, 1e-300, 3.]),
               np.array([-0., 0., 1., 2., 3., 4.])):
        out = np.full(6, -5.0)
        attempt(f"cl.norm.{lab}", lambda: kern(6, An, nm, out))
        put(f"cl.norm.{lab}.o", out)

# --- class level: overriding subclasses, inconsistent object state ---------


class Shifted(VisibilityGraph):
    calls = []

    def retarded_degree(self):
        Shifted.calls.append("r")
        return VisibilityGraph.retarded_degree(self) + 1

    def advanced_degree(self):
        Shifted.calls.append("a")
        return np.arange(self.N, dtype=float)


class IntDegree(VisibilityGraph):
    def retarded_degree(self):
        return VisibilityGraph.retarded_degree(self).astype(int)

    def advanced_degree(self):
        return list(VisibilityGraph.advanced_degree(self))


for cls in (Shifted, IntDegree):
    for n in (3, 6, 25):
        xs = rng.standard_normal(n)
        for horizontal in (False, True):
            try:
                vgs = cls(xs, horizontal=horizontal, silence_level=2)
            except Exception as e:  # pylint: disable=broad-except
                put(f"sub.{cls.__name__}.{n}", type(e).__name__)
                continue
            measures(f"sub.{cls.__name__}.{n}.{int(horizontal)}", vgs)
put("sub.calls", Shifted.calls)

vg = VisibilityGraph(rng.standard_normal(15), silence_level=2)
for badN in (14, 3, 0, 16, 40, -1, 2.0, None, "3", np.int64(7)):
    vg.N = badN
    for name in ("retarded_degree", "advanced_degree",
                 "retarded_local_clustering", "advanced_local_clustering",
                 "boundary_corrected_degree"):
        attempt(f"badN.{badN!r}.{name}", getattr(vg, name))
vg.N = 15
import scipy.sparse as sp
vg.sp_A = sp.csc_matrix(rng.uniform(size=(15, 15)))
for name in ("retarded_degree", "advanced_degree",
             "retarded_local_clustering", "advanced_local_clustering"):
    attempt(f"floatA.{name}", getattr(vg, name))
vg.sp_A = sp.csc_matrix((rng.uniform(size=(15, 15)) < .5).astype(np.int64)
                        * (2 ** 60))
for name in ("retarded_degree", "advanced_degree",
             "retarded_local_clustering", "advanced_local_clustering"):
    attempt(f"bigA.{name}", getattr(vg, name))
vg.sp_A = None
for name in ("retarded_degree", "advanced_degree",
             "retarded_local_clustering", "advanced_local_clustering"):
    attempt(f"noA.{name}", getattr(vg, name))
# results are fresh arrays
vg = VisibilityGraph(rng.standard_normal(15), silence_level=2)
r1 = vg.retarded_degree()
r1 += 100
put("fresh.rd", vg.retarded_degree())
c1 = vg.advanced_local_clustering()
c1 += 100
put("fresh.ac", vg.advanced_local_clustering())
put("fresh.A", vg.adjacency)
put("fresh.state", sorted(vg.__dict__))

print(H.hexdigest())
