"""Equivalence digest for twin 3 (joint recurrence plot composition and
inter system recurrence matrix assembly)."""
import hashlib
import io
import contextlib

import numpy as np

from pyunicorn.timeseries import JointRecurrencePlot, \
    JointRecurrenceNetwork, InterSystemRecurrenceNetwork, RecurrencePlot, \
    CrossRecurrencePlot

H = hashlib.sha256()


def feed(tag, obj):
    H.update(repr(tag).encode())
    if isinstance(obj, np.ndarray):
        H.update(str(obj.dtype).encode())
        H.update(repr(obj.shape).encode())
        H.update(repr((obj.flags.c_contiguous, obj.flags.f_contiguous,
                       obj.flags.owndata, obj.flags.writeable)).encode())
        H.update(np.ascontiguousarray(obj).tobytes())
    else:
        H.update(repr(obj).encode())


def state(tag, obj, skip=()):
    names = sorted(n for n in vars(obj) if n not in skip)
    feed(tag + ("attrs",), names)
    for name in names:
        value = vars(obj)[name]
        if isinstance(value, np.ndarray) or value is None or \
                isinstance(value, (int, float, str, bool, tuple)):
            feed(tag + (name,), value)
        elif isinstance(value, np.generic):
            feed(tag + (name,), (type(value).__name__, repr(value)))
        elif isinstance(value, (RecurrencePlot, CrossRecurrencePlot)):
            state(tag + (name,), value)
        else:
            feed(tag + (name,), type(value).__name__)


def attempt(tag, fun, *args, **kw):
    out = io.StringIO()
    try:
        with contextlib.redirect_stdout(out):
            res = fun(*args, **kw)
    except Exception as exc:  # pylint: disable=broad-except
        feed(tag, ("EXC", type(exc).__name__, str(exc), out.getvalue()))
        return None
    feed(tag + ("stdout",), out.getvalue())
    if isinstance(res, np.ndarray):
        feed(tag + ("result",), res)
    return res


METRICS = ("manhattan", "euclidean", "supremum")

# --- joint recurrence plots -------------------------------------------------
for seed in range(3):
    rng = np.random.RandomState(300 + seed)
    n = 30 + 5 * seed
    x = rng.randn(n, 1 + seed)
    y = rng.randn(n, 2)
    for mx in METRICS:
        my = METRICS[(METRICS.index(mx) + seed) % 3]
        for lag in (0, 1, 4, -1, -3, n - 1, n, -n, n + 1, -(n + 2), 2.0,
                    np.int64(2), np.int8(-2), None):
            for kw in ({"threshold": (0.9, 1.4)},
                       {"threshold_std": (0.8, 0.6)},
                       {"recurrence_rate": (0.3, 0.2)}):
                for silence in (0, 2):
                    tag = ("JRP", seed, mx, my, repr(lag), sorted(kw),
                           silence)
                    jrp = attempt(tag, JointRecurrencePlot, x, y,
                                  metric=(mx, my), lag=lag,
                                  silence_level=silence, **kw)
                    if jrp is not None:
                        state(tag, jrp)
                        feed(tag + ("rm",), jrp.recurrence_matrix())
                        feed(tag + ("rr",), jrp.recurrence_rate())
        # degenerate keyword values
        for kw in ({}, {"threshold": (0.5,)}, {"threshold": (0.5, None)},
                   {"threshold": (None, 0.5)}, {"threshold": 0.5},
                   {"recurrence_rate": (0.5,)},
                   {"recurrence_rate": (0.2, 1.5)},
                   {"recurrence_rate": (None, 0.5)},
                   {"threshold_std": (1.0,)},
                   {"threshold": (0.5, 0.6, 0.7)},
                   {"threshold": (0.5, 0.6), "recurrence_rate": (0.1, 0.1)},
                   {"threshold": [0.7, 0.2], "normalize": True}):
            tag = ("JRP-deg", seed, mx, sorted(kw.items(), key=repr))
            jrp = attempt(tag, JointRecurrencePlot, x, y, metric=(mx, my),
                          lag=1, silence_level=1, **kw)
            if jrp is not None:
                state(tag, jrp)
        attempt(("JRP-metric1", seed, mx), JointRecurrencePlot, x, y,
                metric=(mx,), threshold=(1, 1))
        attempt(("JRP-len", seed, mx), JointRecurrencePlot, x, y[:-2],
                metric=(mx, mx), threshold=(1, 1))

        # call sequences: setters after construction, lag modified
        jrp = JointRecurrencePlot(x, y, metric=(mx, my), lag=2,
                                  threshold=(1.0, 1.0), silence_level=2)
        tag = ("JRP-seq", seed, mx)
        steps = [("set_fixed_recurrence_rate", (0.2, 0.4), None),
                 ("set_fixed_threshold", (0.7, 1.7), -3),
                 ("set_fixed_threshold_std", (0.7, 0.4), 0),
                 ("set_fixed_recurrence_rate", (0.2, 7), 1),
                 ("set_fixed_threshold", (0.7,), 1),
                 ("set_fixed_threshold", (0.6, 0.9), n + 5),
                 ("set_fixed_recurrence_rate", (0.1, 0.1), -(n + 5)),
                 ("set_fixed_threshold", (0.6, 0.9), 1.5),
                 ("set_fixed_recurrence_rate", (0.1, 0.3), 5)]
        for i, (name, arg, newlag) in enumerate(steps):
            if newlag is not None:
                jrp.lag = newlag
            before = jrp.JR
            attempt(tag + (i, name), getattr(jrp, name), arg)
            state(tag + (i, name), jrp)
            feed(tag + (i, name, "same"), jrp.JR is before)
        # embedded series of unequal pruned lengths
        jrp.x_embedded = jrp.x_embedded[:-4]
        attempt(tag + ("pruned-thr",), jrp.set_fixed_threshold, (1.0, 1.0))
        state(tag + ("pruned-thr",), jrp)
        attempt(tag + ("pruned-rr",), jrp.set_fixed_recurrence_rate,
                (0.2, 0.2))
        state(tag + ("pruned-rr",), jrp)

    # embedding
    xs = rng.randn(n)
    ys = rng.randn(n)
    for kw in ({"threshold": (0.4, 0.6)}, {"recurrence_rate": (0.2, 0.25)},
               {"threshold_std": (0.4, 0.3)}):
        for lag in (0, 3, -2):
            tag = ("JRP-emb", seed, lag, sorted(kw))
            jrp = attempt(tag, JointRecurrencePlot, xs, ys,
                          metric=("euclidean", "manhattan"), lag=lag,
                          dim=(3, 5), tau=(2, 1), normalize=True,
                          silence_level=2, **kw)
            if jrp is not None:
                state(tag, jrp)
            jrn = attempt(tag + ("net",), JointRecurrenceNetwork, xs, ys,
                          metric=("euclidean", "manhattan"), lag=lag,
                          dim=(3, 5), tau=(2, 1), silence_level=2, **kw)
            if jrn is not None:
                feed(tag + ("net", "A"), jrn.adjacency)
                feed(tag + ("net", "N"), jrn.N)
                feed(tag + ("net", "JR"), jrn.JR)

# --- inter system recurrence networks ---------------------------------------
SKIP = ("_Network__weights", "_cache")
for seed in range(3):
    rng = np.random.RandomState(500 + seed)
    nx, ny = 20 + 3 * seed, 27 - 2 * seed
    d = 1 + seed
    x = rng.randn(nx, d)
    y = rng.randn(ny, d)
    for metric in METRICS:
        for kw in ({"threshold": (0.8, 1.0, 1.2)},
                   {"recurrence_rate": (0.2, 0.1, 0.15)},
                   {"threshold": (0.8, 1.0, 1.2),
                    "recurrence_rate": (0.2, 0.1, 0.15)},
                   {}, {"threshold": (0.8, 1.0)}, {"recurrence_rate": (0.2,)},
                   {"threshold": 0.5}, {"recurrence_rate": (0.2, 0.2, 1.2)},
                   {"threshold": (0.8, None, 1.2)},
                   {"threshold": [1.0, 1.0, 1.0, 1.0], "normalize": True}):
            for silence in (0, 2):
                tag = ("ISRN", seed, metric, sorted(kw.items(), key=repr),
                       silence)
                net = attempt(tag, InterSystemRecurrenceNetwork, x, y,
                              metric=metric, silence_level=silence, **kw)
                if net is None:
                    continue
                feed(tag + ("A",), net.adjacency)
                feed(tag + ("ISRM",), net.inter_system_recurrence_matrix())
                for name in ("N", "N_x", "N_y", "threshold", "metric", "dim",
                             "missing_values", "silence_level", "directed"):
                    feed(tag + (name,), getattr(net, name))
                for name in ("rp_x", "rp_y", "crp_xy"):
                    state(tag + (name,), getattr(net, name))
                feed(tag + ("irr",), net.internal_recurrence_rates())
                feed(tag + ("crr",), net.cross_recurrence_rate())
                feed(tag + ("keys",), sorted(
                    k for k in vars(net) if not k.startswith("_")))
        attempt(("ISRN-dim", seed, metric), InterSystemRecurrenceNetwork, x,
                rng.randn(ny, d + 1), metric=metric,
                threshold=(1, 1, 1))

        # call sequences: the setters return a new ISRM and replace the plots
        net = InterSystemRecurrenceNetwork(x, y, metric=metric,
                                           threshold=(1.0, 1.0, 1.0),
                                           silence_level=2)
        tag = ("ISRN-seq", seed, metric)
        for i, (name, arg) in enumerate([
                ("set_fixed_recurrence_rate", (0.1, 0.3, 0.2)),
                ("set_fixed_threshold", (0.5, 1.5, 0.9)),
                ("set_fixed_threshold", (0.5, 1.5)),
                ("set_fixed_recurrence_rate", (0.1, 2, 0.2)),
                ("set_fixed_recurrence_rate", None),
                ("set_fixed_threshold", (0.7, 0.7, 0.7))]):
            old = (net.rp_x, net.rp_y, net.crp_xy)
            attempt(tag + (i, name), getattr(net, name), arg)
            feed(tag + (i, name, "replaced"),
                 tuple(a is b for a, b in
                       zip(old, (net.rp_x, net.rp_y, net.crp_xy))))
            for pname in ("rp_x", "rp_y", "crp_xy"):
                state(tag + (i, name, pname), getattr(net, pname))
            attempt(tag + (i, name, "ISRM"),
                    net.inter_system_recurrence_matrix)
            feed(tag + (i, name, "A"), net.adjacency)
        # inconsistent bookkeeping and sequential-RQA sub plots
        net.N_x -= 1
        attempt(tag + ("shifted",), net.inter_system_recurrence_matrix)
        net.N_x += 1
        net.crp_xy.sparse_rqa = True
        attempt(tag + ("sparse-crp",), net.inter_system_recurrence_matrix)
        net.crp_xy.sparse_rqa = False
        net.rp_y.sparse_rqa = True
        attempt(tag + ("sparse-rpy",), net.inter_system_recurrence_matrix)
        net.rp_y.sparse_rqa = False
        del net.rp_y
        attempt(tag + ("no-rpy",), net.inter_system_recurrence_matrix)

    # embedding
    xs = rng.randn(40)
    ys = rng.randn(33)
    for kw in ({"threshold": (0.5, 0.6, 0.7)},
               {"recurrence_rate": (0.1, 0.2, 0.15)}):
        tag = ("ISRN-emb", seed, sorted(kw))
        net = attempt(tag, InterSystemRecurrenceNetwork, xs, ys,
                      metric="euclidean", dim=3, tau=(2, 3), normalize=True,
                      silence_level=2, **kw)
        if net is not None:
            feed(tag + ("A",), net.adjacency)
            feed(tag + ("Ns",), (net.N, net.N_x, net.N_y))

print(H.hexdigest())
