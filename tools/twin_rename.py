#!/venv/bin/python
"""Whole-tree rename twin: every local variable of every function in the chosen
source files gets a new name; all checks must report exactly what they report on
the unmodified tree.
usage: tools/twin_rename.py [--files glob-substr ...] [--per-file] [--keep DIR] [--props Cxx,..]"""
import sys, os, subprocess, shutil, tempfile, glob, ast, json
sys.path.insert(0, os.path.join(os.path.dirname(os.path.abspath(__file__)), ".."))
from concurrent.futures import ThreadPoolExecutor
from pyuverif import twins, mutants
from pyuverif.report import REPO, VERIF
from pyuverif.registry import CHECKS


from pyuverif.twins import make_twin


def run_checks(repo, props):
    def one(p):
        pr = subprocess.run([os.path.join(VERIF, "vcheck"), p, "--no-write", "--repo", repo],
                            capture_output=True, text=True)
        keys = set()
        errs = [l for l in pr.stdout.splitlines() if "ANALYSIS-ERROR" in l]
        for l in pr.stdout.splitlines():
            if l.startswith("KNOWN-FINDING:"):
                keys.add(l.split()[2])
            elif l.startswith("  ") and "] " in l:
                keys.add(l.split("] ")[1].split(": ")[0])
        return p, pr.returncode, keys, errs, pr.stderr[-300:]
    with ThreadPoolExecutor(16) as ex:
        return {r[0]: r[1:] for r in ex.map(one, props)}


def main():
    a = sys.argv[1:]
    files = None; per_file = False; keep = None
    props = sorted(CHECKS)
    if "--files" in a:
        i = a.index("--files"); files = a[i + 1].split(","); del a[i:i + 2]
    if "--props" in a:
        i = a.index("--props"); props = a[i + 1].split(","); del a[i:i + 2]
    if "--per-file" in a:
        per_file = True; a.remove("--per-file")
    if "--keep" in a:
        i = a.index("--keep"); keep = a[i + 1]; del a[i:i + 2]
    base = run_checks(REPO, props)
    root = tempfile.mkdtemp(prefix="pyuverif_twin_")
    bad = 0
    try:
        targets = [None]
        if per_file:
            targets = [os.path.relpath(p, REPO) for p in sorted(
                glob.glob(os.path.join(REPO, "src/pyunicorn/**/*"), recursive=True))
                if p.endswith((".py", ".pyx")) or (p.endswith(".c") and "src_" in p)]
            if files:
                targets = [t for t in targets if any(f in t for f in files)]
        for k, tg in enumerate(targets):
            dst = keep or os.path.join(root, f"t{k}")
            if os.path.exists(dst):
                shutil.rmtree(dst)
            stats = make_twin(REPO, dst, files, tg)
            res = run_checks(dst, props)
            tot = sum(stats.values())
            label = tg or "ALL"
            noisy = []
            for p in props:
                rc, keys, errs, stderr = res[p]
                brc, bkeys, berrs, _ = base[p]
                if keys != bkeys or rc != brc:
                    noisy.append((p, rc, sorted(keys - bkeys)[:6], sorted(bkeys - keys)[:6],
                                  errs[:2], stderr if rc not in (0, 1) else ""))
            print(f"{label}: renamed {tot} identifiers in {sum(1 for v in stats.values() if v)} files; "
                  f"noisy checks: {len(noisy)}")
            for nz in noisy:
                print("   ", json.dumps(nz)[:700])
            bad += len(noisy)
            if not keep:
                shutil.rmtree(dst, ignore_errors=True)
    finally:
        shutil.rmtree(root, ignore_errors=True)
    return 1 if bad else 0


if __name__ == "__main__":
    sys.exit(main())
