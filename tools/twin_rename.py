#!/venv/bin/python
"""Whole-tree rename twin: every local variable of every function in the chosen
source files gets a new name; all checks must report exactly what they report on
the unmodified tree.
usage: tools/twin_rename.py [--files glob-substr ...] [--per-file] [--keep DIR] [--props Cxx,..]"""
import sys, os, subprocess, shutil, tempfile, glob, ast, json
sys.path.insert(0, os.path.join(os.path.dirname(os.path.abspath(__file__)), ".."))
from concurrent.futures import ThreadPoolExecutor
from pyuverif import twins, mutants
from pyuverif.report import REPO, VERIF
from pyuverif.registry import CHECKS


def pyx_funcs(repo, rel):
    from pyuverif.cymodel import load_module, walk, X
    mod = rel[len("src/"):-len(".pyx")].replace("/", ".")
    m = load_module(repo, mod)
    out = []
    for f in m.funcs.values():
        locs = set(f.locals)
        for s in walk(f.body):
            if isinstance(s, X) and s.k == "for":
                for n in walk(s.a[0]):
                    if isinstance(n, X) and n.k == "name":
                        locs.add(n.a[0])
            if isinstance(s, X) and s.k == "assign":
                for t in s.a[0]:
                    for n in ([t] if t.k == "name" else (t.a[0] if t.k == "tuple" else [])):
                        if isinstance(n, X) and n.k == "name":
                            locs.add(n.a[0])
        params = {n for n, t in f.args}
        # module-level names must keep their names
        locs -= set(m.funcs) | set(m.externs) | set(m.globals) | set(m.ctypedefs)
        out.append((f.name, f.line, locs, params))
    return out


def c_funcs(repo, rel):
    from pyuverif.cmodel import load_c
    from pyuverif.cymodel import walk, X
    d = load_c(repo, rel)
    fs = sorted(d["funcs"].values(), key=lambda f: f.line)
    nlines = len(open(os.path.join(repo, rel)).read().splitlines())
    out = []
    for i, f in enumerate(fs):
        end = fs[i + 1].line - 1 if i + 1 < len(fs) else nlines
        locs = set()
        for s in walk(f.body):
            if isinstance(s, X) and s.k == "cdecl":
                for (n, t, init) in s.a[0]:
                    locs.add(n)
        out.append((f.name, f.line, end, locs))
    return out


def make_twin(repo, dst, files=None, only_file=None):
    mutants._scratch(dst, repo)
    stats = {}
    for p in sorted(glob.glob(os.path.join(dst, "src/pyunicorn/**/*"), recursive=True)):
        rel = os.path.relpath(p, dst)
        if only_file and rel != only_file:
            continue
        if files and not any(f in rel for f in files):
            continue
        if rel.endswith(".py"):
            src = open(p, encoding="utf-8").read()
            new, n = twins.rename_locals_py(src)
            if n:
                ast.parse(new)
                open(p, "w", encoding="utf-8").write(new)
            stats[rel] = n
        elif rel.endswith(".pyx"):
            src = open(p, encoding="utf-8").read()
            new, n = twins.rename_locals_pyx(src, pyx_funcs(repo, rel))
            if n:
                open(p, "w", encoding="utf-8").write(new)
            stats[rel] = n
        elif rel.endswith(".c") and "src_" in rel:
            src = open(p, encoding="utf-8").read()
            new, n = twins.rename_locals_c(src, c_funcs(repo, rel))
            if n:
                open(p, "w", encoding="utf-8").write(new)
            stats[rel] = n
    return stats


def run_checks(repo, props):
    def one(p):
        pr = subprocess.run([os.path.join(VERIF, "vcheck"), p, "--no-write", "--repo", repo],
                            capture_output=True, text=True)
        keys = set()
        errs = [l for l in pr.stdout.splitlines() if "ANALYSIS-ERROR" in l]
        for l in pr.stdout.splitlines():
            if l.startswith("KNOWN-FINDING:"):
                keys.add(l.split()[2])
            elif l.startswith("  ") and "] " in l:
                keys.add(l.split("] ")[1].split(": ")[0])
        return p, pr.returncode, keys, errs, pr.stderr[-300:]
    with ThreadPoolExecutor(16) as ex:
        return {r[0]: r[1:] for r in ex.map(one, props)}


def main():
    a = sys.argv[1:]
    files = None; per_file = False; keep = None
    props = sorted(CHECKS)
    if "--files" in a:
        i = a.index("--files"); files = a[i + 1].split(","); del a[i:i + 2]
    if "--props" in a:
        i = a.index("--props"); props = a[i + 1].split(","); del a[i:i + 2]
    if "--per-file" in a:
        per_file = True; a.remove("--per-file")
    if "--keep" in a:
        i = a.index("--keep"); keep = a[i + 1]; del a[i:i + 2]
    base = run_checks(REPO, props)
    root = tempfile.mkdtemp(prefix="pyuverif_twin_")
    bad = 0
    try:
        targets = [None]
        if per_file:
            targets = [os.path.relpath(p, REPO) for p in sorted(
                glob.glob(os.path.join(REPO, "src/pyunicorn/**/*"), recursive=True))
                if p.endswith((".py", ".pyx")) or (p.endswith(".c") and "src_" in p)]
            if files:
                targets = [t for t in targets if any(f in t for f in files)]
        for k, tg in enumerate(targets):
            dst = keep or os.path.join(root, f"t{k}")
            if os.path.exists(dst):
                shutil.rmtree(dst)
            stats = make_twin(REPO, dst, files, tg)
            res = run_checks(dst, props)
            tot = sum(stats.values())
            label = tg or "ALL"
            noisy = []
            for p in props:
                rc, keys, errs, stderr = res[p]
                brc, bkeys, berrs, _ = base[p]
                if keys != bkeys or rc != brc:
                    noisy.append((p, rc, sorted(keys - bkeys)[:6], sorted(bkeys - keys)[:6],
                                  errs[:2], stderr if rc not in (0, 1) else ""))
            print(f"{label}: renamed {tot} identifiers in {sum(1 for v in stats.values() if v)} files; "
                  f"noisy checks: {len(noisy)}")
            for nz in noisy:
                print("   ", json.dumps(nz)[:700])
            bad += len(noisy)
            if not keep:
                shutil.rmtree(dst, ignore_errors=True)
    finally:
        shutil.rmtree(root, ignore_errors=True)
    return 1 if bad else 0


if __name__ == "__main__":
    sys.exit(main())
