#!/venv/bin/python
"""Regenerates the machine-derived tables of DESIGN.md (between the
<!-- BEGIN GENERATED:x --> / <!-- END GENERATED:x --> markers) from the evidence
files, known_findings.json, the seeded changes and the variant catalogue."""
import glob, json, os, re, sys
sys.path.insert(0, os.path.join(os.path.dirname(os.path.abspath(__file__)), ".."))
V = "/verif"


def rules_table():
    out = ["| property | rule | what the rule decides (text printed into the evidence) | obligations on the current tree |",
           "|---|---|---|---|"]
    for f in sorted(glob.glob(f"{V}/evidence/C*.json")):
        e = json.load(open(f))
        pid = e["property_id"]
        for rid, r in sorted(e["coverage"]["rules"].items()):
            if rid == "SV":
                continue
            ob = f"{r['discharged']}/{r['obligations']}"
            if r.get("instances"):
                ob += f" (+{r['instances']} instances enumerated)"
            out.append(f"| {pid} | {rid} | {r['text']} | {ob} |")
    return "\n".join(out)


def findings_table():
    k = json.load(open(f"{V}/known_findings.json"))
    out = ["**Fixed in /repo (one `fix:` commit each; the reverse of every commit is a break variant of the thorough tier):**", ""]
    for ent in k.get("fixed", []):
        m = re.match(r"fixed: property=(C\d+) (\w+) (.*)", ent)
        out.append(f"* {m.group(1)} `{m.group(2)}` {m.group(3)}")
    out += ["", "**Recorded, not repaired (check prints `KNOWN-FINDING:` and exits 0):**", ""]
    for ent in k.get("known", []):
        out.append(f"* {ent['property']} `{ent['key']}` - {ent.get('what', ent.get('why', ''))}"
                   + (f" *Not repaired because:* {ent['why_not_fixed']}" if ent.get('why_not_fixed') else ""))
    return "\n".join(out)


def seeds_table():
    out = ["| seeded change | what it does | reported by (check: finding keys) |", "|---|---|---|"]
    n = {"caught": 0, "missed": 0, "analysis-error": 0}
    for d in sorted(glob.glob(f"{V}/seeded/*")):
        mp = os.path.join(d, "meta.json")
        if not os.path.exists(mp):
            continue
        m = json.load(open(mp))
        ca = m.get("checked_against", {})
        viol = ca.get("violations", {})
        errs = ca.get("analysis_errors", {})
        if viol:
            rep = "; ".join(f"**{c}**: " + ", ".join(f"`{k.split('/', 1)[1] if '/' in k else k}`" for k in ks[:3])
                            + (" ..." if len(ks) > 3 else "") for c, ks in sorted(viol.items()))
            n["caught"] += 1
        elif errs:
            rep = "analysis error only (exit 2): " + "; ".join(f"{c}: {v[0][:90]}" for c, v in errs.items())
            n["analysis-error"] += 1
        else:
            rep = "**missed** - " + m.get("miss_reason", "value-level change: no structural clause of the property is touched")
            n["missed"] += 1
        out.append(f"| {os.path.basename(d)} | {m.get('summary', '')[:260]} | {rep} |")
    out.append("")
    out.append(f"Totals: {n['caught']} reported by at least one check, {n['analysis-error']} analysis-error only, "
               f"{n['missed']} missed, of {sum(n.values())} confirmed changes.")
    return "\n".join(out)


def variants_table():
    from pyuverif import mutants
    out = ["| property | break variants (must be reported) | twin variants (must stay silent) |", "|---|---|---|"]
    allv = mutants.CATALOGUE + mutants.fix_reverts()
    for p in sorted({v.prop for v in allv}):
        b = [v.vid for v in allv if v.prop == p and v.kind == "break"]
        t = [v.vid for v in allv if v.prop == p and v.kind == "twin"] + ["auto-rename-all-locals", "auto-reformat-python", "auto-rename-kernel-params"]
        out.append(f"| {p} | {len(b)}: " + ", ".join(b) + f" | {len(t)}: " + ", ".join(t) + " |")
    return "\n".join(out)


def twins_table():
    out = ["| refactoring | what was refactored (behaviour preserved: same equiv.py output, 573 tests) | verdict of all 18 checks |", "|---|---|---|"]
    n = {"silent": 0, "noisy": 0}
    for d in sorted(glob.glob(f"{V}/twins/*")):
        mp = os.path.join(d, "meta.json")
        if not os.path.exists(mp):
            continue
        m = json.load(open(mp))
        ca = m.get("checked_against", {})
        noisy = ca.get("noisy_checks") or {}
        if noisy:
            n["noisy"] += 1
            v = "**false alarm**: " + "; ".join(sorted(noisy))
        else:
            n["silent"] += 1
            v = "silent"
        out.append(f"| {os.path.basename(d)} | {m.get('summary', '')[:300]} | {v} |")
    out.append("")
    out.append(f"Totals: {n['silent']} silent, {n['noisy']} false alarms, of {sum(n.values())} confirmed refactorings (current checker).")
    return "\n".join(out)


GEN = {"twins": twins_table, "rules": rules_table, "findings": findings_table, "seeds": seeds_table,
       "variants": variants_table}


def main():
    p = f"{V}/DESIGN.md"
    s = open(p, encoding="utf-8").read()
    for name, fn in GEN.items():
        a, b = f"<!-- BEGIN GENERATED:{name} -->", f"<!-- END GENERATED:{name} -->"
        if a not in s:
            print("marker missing:", name)
            continue
        i, j = s.index(a) + len(a), s.index(b)
        s = s[:i] + "\n" + fn() + "\n" + s[j:]
    open(p, "w", encoding="utf-8").write(s)


if __name__ == "__main__":
    main()
