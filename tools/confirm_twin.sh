#!/bin/bash
# usage: confirm_twin.sh <src_dir containing patch.diff equiv.py meta.json> <dest name e.g. C19-t1>
# Confirms in a fresh scratch worktree of /repo HEAD that the refactoring keeps behaviour:
# equiv.py prints the same digest before and after the patch, and the test-suite passes.
# On success copies the artefacts to /verif/twins/<dest>/ with a "confirmed" record.
src="$1"; dest="$2"
wt="/tmp/seedchk/$dest"
rm -rf "$wt"; mkdir -p /tmp/seedchk
git -C /repo worktree add -q --detach "$wt" HEAD || exit 3
(cd /repo && find src -name '*.so' | while read f; do cp "$f" "$wt/$f"; done)
cd "$wt"
export PYTHONPATH="$wt/src"
# the digest is every long hex token the script prints (sha256 etc.); scripts that
# print none are compared on their last lines
run_eq() { (cd "$wt" && timeout 1200 /venv/bin/python "$src/equiv.py" > "$wt/_equiv.out" 2>&1;
            if grep -qoE '[0-9a-f]{32,}' "$wt/_equiv.out"; then grep -oE '[0-9a-f]{32,}' "$wt/_equiv.out" | md5sum | cut -c1-16;
            else tail -5 "$wt/_equiv.out" | md5sum | cut -c1-16; fi); }
pre=$(run_eq)
if ! git apply --3way "$src/patch.diff" > "$wt/_apply.out" 2>&1; then
  echo "$dest: PATCH DOES NOT APPLY: $(head -3 $wt/_apply.out | tr '\n' ' ')"; cd /; git -C /repo worktree remove --force "$wt"; exit 2
fi
git diff HEAD > "$wt/_rebased.diff"
if grep -q '\.pyx\|\.c$\|\.pxd' <(git diff HEAD --name-only); then
  /venv/bin/python setup.py build_ext --inplace -j 8 > "$wt/_build.out" 2>&1 || { echo "$dest: BUILD FAILED"; cd /; git -C /repo worktree remove --force "$wt"; exit 2; }
fi
post=$(run_eq)
tests=$(cd "$wt" && timeout 1500 /venv/bin/python -m pytest tests -q -p no:cacheprovider -n 6 --timeout=900 --deselect tests/test_climate/test_map_plot.py 2>&1 | tail -1)
ok=0
if [ "$pre" = "$post" ] && echo "$tests" | grep -q "573 passed" && ! echo "$tests" | grep -q "failed"; then ok=1; fi
echo "$dest: digest_pre=$pre digest_post=$post tests=[$tests] confirmed=$ok"
if [ $ok = 1 ]; then
  mkdir -p "/verif/twins/$dest"
  cp "$wt/_rebased.diff" "/verif/twins/$dest/patch.diff"
  cp "$src/equiv.py" "/verif/twins/$dest/equiv.py"
  /venv/bin/python - "$src/meta.json" "/verif/twins/$dest/meta.json" "$pre" "$tests" <<'PY'
import json, sys, subprocess
m = json.load(open(sys.argv[1]))
m["confirmed"] = {"against_repo_head": subprocess.run(["git","-C","/repo","rev-parse","--short","HEAD"],capture_output=True,text=True).stdout.strip(),
  "equiv_output_md5_before_and_after": sys.argv[3], "tests_with_patch": sys.argv[4],
  "how": "tools/confirm_twin.sh: fresh worktree of /repo HEAD, equiv.py output identical before/after git apply --3way (rebuild if compiled sources changed), full pytest run"}
json.dump(m, open(sys.argv[2], "w"), indent=1)
PY
fi
cd /; git -C /repo worktree remove --force "$wt"
