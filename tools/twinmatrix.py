#!/venv/bin/python
"""Run every check against every confirmed behaviour-preserving refactoring in
/verif/twins/*: any finding that the unmodified tree does not have, or any
analysis error, is a false alarm of the checker.
usage: twinmatrix.py [--update-meta] [--jobs N] [--checks C01,C02] [dir ...]"""
import glob, json, os, shutil, subprocess, sys, tempfile
from concurrent.futures import ThreadPoolExecutor
sys.path.insert(0, '/verif')
from pyuverif.registry import CHECKS

args = sys.argv[1:]
update = '--update-meta' in args
args = [a for a in args if a != '--update-meta']
jobs = 1
if '--jobs' in args:
    i = args.index('--jobs'); jobs = int(args[i + 1]); del args[i:i + 2]
only = None
if '--checks' in args:       # restrict to some checks (never with --update-meta)
    i = args.index('--checks'); only = set(args[i + 1].split(',')); del args[i:i + 2]
    update = False
if only:
    CHECKS = {c: v for c, v in CHECKS.items() if c in only}
dirs = args or sorted(glob.glob('/verif/twins/*'))
tmproot = tempfile.mkdtemp(prefix='twinmx_', dir=os.environ.get('TMPDIR', '/tmp'))


def keys_of(out):
    k = set()
    for l in out.splitlines():
        if l.startswith('KNOWN-FINDING:'):
            k.add(l.split()[2])
        elif l.startswith('  ') and '] ' in l:
            k.add(l.split('] ')[1].split(': ')[0])
    return k


def run_all(repo):
    def one(c):
        p = subprocess.run(['/verif/vcheck', c, '--no-write', '--tier', 'quick', '--repo', repo],
                           capture_output=True, text=True)
        return c, p.returncode, keys_of(p.stdout), [l[:200] for l in p.stdout.splitlines()
                                                     if 'ANALYSIS-ERROR' in l][:2]
    with ThreadPoolExecutor(16 if jobs == 1 else 2) as ex:
        return {r[0]: r[1:] for r in ex.map(one, sorted(CHECKS))}


base = run_all('/repo')
bad = 0


def do(d):
    global bad
    patch = os.path.join(d, 'patch.diff')
    if not os.path.exists(patch):
        return
    name = os.path.basename(d.rstrip('/'))
    w = os.path.join(tmproot, name)
    os.makedirs(w)
    subprocess.run(['rsync', '-a', '--exclude', '*.so', '--exclude', '__pycache__',
                    '--exclude', '_ext/numerics.c', '/repo/src', '/repo/setup.py', w + '/'], check=True)
    r = subprocess.run(f'cd {w} && patch -s -p1 --fuzz=3 < {patch}', shell=True,
                       capture_output=True, text=True)
    if r.returncode != 0:
        print(f'{name} PATCH FAILED')
        shutil.rmtree(w, ignore_errors=True)
        return
    res = run_all(w)
    shutil.rmtree(w, ignore_errors=True)
    noisy = {}
    for c in sorted(CHECKS):
        rc, keys, errs = res[c]
        brc, bkeys, berrs = base[c]
        new = sorted(keys - bkeys)
        if new or rc == 2:
            noisy[c] = {'new_findings': new[:6], 'errors': errs}
    print(f'{name} -> ' + ('silent' if not noisy else 'NOISY ' + json.dumps(noisy)[:900]), flush=True)
    bad += bool(noisy)
    if update:
        mp = os.path.join(d, 'meta.json')
        m = json.load(open(mp)) if os.path.exists(mp) else {}
        m['checked_against'] = {'noisy_checks': noisy, 'verdict': 'silent' if not noisy else 'false alarm',
                                'how': 'tools/twinmatrix.py: patch applied to a scratch copy, every check run with --repo, compared with the unmodified tree'}
        json.dump(m, open(mp, 'w'), indent=1)


with ThreadPoolExecutor(jobs) as ex:
    list(ex.map(do, dirs))
shutil.rmtree(tmproot, ignore_errors=True)
print(f'twins={len(dirs)} noisy={bad}')
sys.exit(1 if bad else 0)
