#!/bin/bash
cd /verif
for s in 0 1 2 3 4 5 6 7 11 42 123 999; do
  for p in C01 C03 C05 C06 C07 C08 C09 C10 C11 C12 C13 C14 C15 C16 C17 C18 C19 C20; do
    echo "$p $(PYTHONHASHSEED=$s ./vcheck $p --no-write | grep -v 'wall=' | sed 's/wall=[0-9.]*s//' | md5sum | cut -c1-12) rc" 
  done
done | sort | uniq -c | awk '{print $2, $3, $1}' 
