#!/venv/bin/python
"""Run every registered check against every seeded change, in parallel, on
scratch copies of /repo's sources (the /repo working tree is not touched).

usage: seedmatrix.py [--update-meta] [--jobs N] [dir ...]   (default: /verif/seeded/*)
Each directory holds patch.diff (+ meta.json).  Prints which checks report a
VIOLATION (exit 1) / ANALYSIS-ERROR (exit 2) per seed."""
import glob, json, os, shutil, subprocess, sys, tempfile
from concurrent.futures import ThreadPoolExecutor
sys.path.insert(0, '/verif')
from pyuverif.registry import CHECKS

args = sys.argv[1:]
update = '--update-meta' in args
args = [a for a in args if a != '--update-meta']
jobs = 12
if '--jobs' in args:
    i = args.index('--jobs'); jobs = int(args[i + 1]); del args[i:i + 2]
dirs = args or sorted(glob.glob('/verif/seeded/*'))
tmproot = tempfile.mkdtemp(prefix='seedmx_', dir=os.environ.get('TMPDIR', '/tmp'))


def one(d):
    patch = os.path.join(d, 'patch.diff')
    if not os.path.exists(patch):
        return None
    name = os.path.basename(d.rstrip('/'))
    if name.startswith('change_'):
        name = os.path.basename(os.path.dirname(d.rstrip('/'))) + '-' + name[-1]
    w = os.path.join(tmproot, name)
    os.makedirs(w)
    subprocess.run(['rsync', '-a', '--exclude', '*.so', '--exclude', '__pycache__',
                    '--exclude', '_ext/numerics.c', '/repo/src', '/repo/setup.py', w + '/'],
                   check=True)
    r = subprocess.run(f'cd {w} && patch -s -p1 --fuzz=3 < {patch}', shell=True,
                       capture_output=True, text=True)
    if r.returncode != 0:
        shutil.rmtree(w, ignore_errors=True)
        return name, 'PATCH FAILED', {}
    res = {}
    for c in sorted(CHECKS):
        p = subprocess.run(['/verif/vcheck', c, '--no-write', '--repo', w],
                           capture_output=True, text=True)
        if p.returncode == 1:
            keys = [l.split('] ')[1].split(': ')[0] for l in p.stdout.splitlines()
                    if l.startswith('  ') and '] ' in l]
            res[c] = keys
        elif p.returncode == 2:
            res[c + '(ERR)'] = [l[:160] for l in p.stdout.splitlines()
                                if 'ANALYSIS-ERROR' in l][:1]
    shutil.rmtree(w, ignore_errors=True)
    return name, None, res


with ThreadPoolExecutor(jobs) as ex:
    results = [r for r in ex.map(one, dirs) if r]
shutil.rmtree(tmproot, ignore_errors=True)
caught = missed = err = 0
for (name, fail, res), d in zip(results, [d for d in dirs if os.path.exists(os.path.join(d, 'patch.diff'))]):
    if fail:
        print(name, fail); continue
    viol = {k: v for k, v in res.items() if not k.endswith('(ERR)')}
    errs = {k: v for k, v in res.items() if k.endswith('(ERR)')}
    if viol:
        caught += 1
    elif errs:
        err += 1
    else:
        missed += 1
    print(name, '->', '; '.join(f"{c}: {k[:2]}" for c, k in res.items()) or 'MISSED')
    if update and os.path.exists(os.path.join(d, 'meta.json')):
        m = json.load(open(os.path.join(d, 'meta.json')))
        m['checked_against'] = {
            'violations': {c: k[:6] for c, k in viol.items()},
            'analysis_errors': errs,
            'verdict': 'caught' if viol else ('analysis-error' if errs else 'missed'),
            'how': 'tools/seedmatrix.py: patch applied to a scratch copy, every check run with --repo'}
        json.dump(m, open(os.path.join(d, 'meta.json'), 'w'), indent=1)
print(f'caught={caught} analysis-error-only={err} missed={missed} total={caught+err+missed}')
