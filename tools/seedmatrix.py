#!/venv/bin/python
"""Apply every seeded change to /repo in turn, run all registered checks, restore.
usage: seedmatrix.py [dir ...]   (default: /verif/seeded/*)"""
import glob, json, os, subprocess, sys
sys.path.insert(0, '/verif')
dirs = sys.argv[1:] or sorted(glob.glob('/verif/seeded/*'))
from pyuverif.registry import CHECKS
res = {}
for d in dirs:
    patch = os.path.join(d, 'patch.diff')
    if not os.path.exists(patch):
        continue
    name = os.path.basename(d.rstrip('/'))
    if name.startswith('change_'):
        name = d.split('/')[3] + '-' + name[-1]
    r = subprocess.run(['git', '-C', '/repo', 'apply', '--3way', patch], capture_output=True, text=True)
    if r.returncode != 0:
        r2 = subprocess.run(f'cd /repo && patch -s -p1 --fuzz=3 < {patch}', shell=True, capture_output=True, text=True)
        if r2.returncode != 0:
            print(name, 'PATCH FAILED'); subprocess.run(['git','-C','/repo','reset','-q','--hard','HEAD']); continue
    caught = []
    for c in sorted(CHECKS):
        p = subprocess.run(['/verif/vcheck', c, '--no-write'], capture_output=True, text=True)
        keys = [l.split('] ')[1].split(': ')[0] for l in p.stdout.splitlines() if l.startswith('  ') and '] ' in l and p.returncode == 1]
        if p.returncode == 1:
            caught.append((c, keys[:3]))
        elif p.returncode == 2:
            caught.append((c + '(ERR)', [l for l in p.stdout.splitlines() if 'ANALYSIS-ERROR' in l][:1]))
    subprocess.run(['git', '-C', '/repo', 'reset', '-q', '--hard', 'HEAD'])
    subprocess.run('find /repo/src -name "*.orig" -delete', shell=True)
    res[name] = caught
    print(name, '->', '; '.join(f"{c}: {k}" for c, k in caught) or 'MISSED')
st = subprocess.run(['git', '-C', '/repo', 'status', '--short'], capture_output=True, text=True).stdout
print('repo status:', [l for l in st.splitlines() if not l.startswith('??')])
