#!/bin/bash
# usage: tryseed.sh <patch.diff> <Cxx> [<Cyy> ...] : apply patch to /repo, run checks, restore
p="$1"; shift
git -C /repo apply --3way "$p" 2>&1 | grep -v "^Applied patch" | head -3
for c in "$@"; do
  /verif/vcheck $c --no-write 2>&1 | grep -A1 "^VIOLATION\|ANALYSIS-ERROR" | grep -v '^--' | grep -v '^VIOLATION' | cut -c1-420
done
git -C /repo reset -q --hard HEAD; find /repo/src -name "*.orig" -delete
git -C /repo status --short | grep -v '^??' | head -3
