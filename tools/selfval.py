#!/venv/bin/python
"""Run the self-validation catalogue (pyuverif.mutants) for some/all properties.
usage: tools/selfval.py [Cxx ...] [--repo DIR]"""
import sys, os, json
sys.path.insert(0, os.path.join(os.path.dirname(os.path.abspath(__file__)), ".."))
from pyuverif import mutants
from pyuverif.report import REPO

def main():
    args = sys.argv[1:]
    repo = REPO
    if "--repo" in args:
        i = args.index("--repo"); repo = args[i + 1]; del args[i:i + 2]
    props = args or sorted({v.prop for v in mutants.CATALOGUE + mutants.fix_reverts()})
    bad = 0
    for p in props:
        res, s = mutants.self_validate(p, repo)
        print(f"[{p}] variants={s['variants']} ok={s['ok']} skipped={len(s['skipped'])} "
              f"missed={len(s['missed'])} noisy={len(s['noisy'])}")
        for k in ("skipped", "missed", "noisy"):
            for vid, d in s[k]:
                print(f"   {k.upper():8s} {vid}: {json.dumps(d)[:400]}")
        bad += len(s["missed"]) + len(s["noisy"])
    return 1 if bad else 0

if __name__ == "__main__":
    sys.exit(main())
