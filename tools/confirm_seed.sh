#!/bin/bash
# usage: confirm_seed.sh <src_dir containing patch.diff demo.py meta.json> <dest name e.g. C19-1>
# Confirms in a fresh scratch worktree of /repo HEAD: demo passes without the patch,
# fails with it, and the test-suite still passes with it.  On success copies the
# artefacts to /verif/seeded/<dest>/ with a "confirmed" record in meta.json.
src="$1"; dest="$2"
wt="/tmp/seedchk/$dest"
rm -rf "$wt"; mkdir -p /tmp/seedchk
git -C /repo worktree add -q --detach "$wt" HEAD || exit 3
(cd /repo && find src -name '*.so' | while read f; do cp "$f" "$wt/$f"; done)
cd "$wt"
export PYTHONPATH="$wt/src"
run_demo() { (cd "$wt" && timeout 900 /venv/bin/python "$src/demo.py" > "$wt/_demo.out" 2>&1; echo $?); }
pre=$(run_demo); preout=$(tail -3 "$wt/_demo.out" | tr '\n' ' ' | cut -c1-300)
if ! git apply --3way "$src/patch.diff" > "$wt/_apply.out" 2>&1; then
  echo "$dest: PATCH DOES NOT APPLY: $(head -3 $wt/_apply.out | tr '\n' ' ')"; git -C /repo worktree remove --force "$wt"; exit 2
fi
git diff HEAD > "$wt/_rebased.diff"
if grep -q '\.pyx\|\.c$\|\.pxd' <(git diff HEAD --name-only); then
  /venv/bin/python setup.py build_ext --inplace -j 8 > "$wt/_build.out" 2>&1 || { echo "$dest: BUILD FAILED"; git -C /repo worktree remove --force "$wt"; exit 2; }
fi
post=$(run_demo); postout=$(tail -3 "$wt/_demo.out" | tr '\n' ' ' | cut -c1-300)
tests=$(cd "$wt" && timeout 1500 /venv/bin/python -m pytest tests -q -p no:cacheprovider --timeout=900 --deselect tests/test_climate/test_map_plot.py 2>&1 | tail -1)
ok=0
if [ "$pre" = "0" ] && [ "$post" != "0" ] && echo "$tests" | grep -q "573 passed" && ! echo "$tests" | grep -q "failed"; then ok=1; fi
echo "$dest: pre=$pre post=$post tests=[$tests] confirmed=$ok"
if [ $ok = 1 ]; then
  mkdir -p "/verif/seeded/$dest"
  cp "$wt/_rebased.diff" "/verif/seeded/$dest/patch.diff"
  cp "$src/demo.py" "/verif/seeded/$dest/demo.py"
  /venv/bin/python - "$src/meta.json" "/verif/seeded/$dest/meta.json" "$pre" "$post" "$tests" "$preout" "$postout" <<'PY'
import json, sys, subprocess
m = json.load(open(sys.argv[1]))
m["confirmed"] = {"against_repo_head": subprocess.run(["git","-C","/repo","rev-parse","--short","HEAD"],capture_output=True,text=True).stdout.strip(),
  "demo_exit_without_patch": int(sys.argv[3]), "demo_exit_with_patch": int(sys.argv[4]),
  "tests_with_patch": sys.argv[5], "demo_tail_without": sys.argv[6], "demo_tail_with": sys.argv[7],
  "how": "tools/confirm_seed.sh: fresh worktree of /repo HEAD, demo run before/after git apply --3way, (rebuild if compiled sources changed), full pytest run"}
json.dump(m, open(sys.argv[2], "w"), indent=1)
PY
fi
cd /; git -C /repo worktree remove --force "$wt"
