#!/bin/bash
# usage: mkwt.sh <name>  -> creates a scratch git worktree of /repo HEAD at /tmp/seed/<name>
# with the compiled extension modules copied in (so that it is importable at once).
set -e
name="$1"; dir="/tmp/seed/$name"
mkdir -p /tmp/seed
git -C /repo worktree add -q --detach "$dir" HEAD
(cd /repo && find src -name '*.so' | while read f; do cp "$f" "$dir/$f"; done)
echo "$dir"
