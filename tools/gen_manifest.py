#!/venv/bin/python
"""Regenerate MANIFEST.json from pyuverif/manifest_data.py (single source)."""
import json, os, sys
here = os.path.dirname(os.path.dirname(os.path.abspath(__file__)))
sys.path.insert(0, here)
from pyuverif import manifest_data as md
from pyuverif.registry import CHECKS

checks = []
for pid in sorted(md.CLAIMS):
    c = md.CLAIMS[pid]
    if pid not in CHECKS:
        continue
    checks.append({
        "property_id": pid,
        "quick_cmd": f"./vcheck {pid} --tier quick",
        "thorough_cmd": f"./vcheck {pid} --tier thorough",
        "evidence_file": f"/verif/evidence/{pid}.json",
        "replay_cmd_template": f"./vcheck {pid} --tier quick --replay {{path}}",
        "engine": "pyuverif",
        "level_claimed": {"category": "other", "text": c["text"],
                          "design_ref": c.get("design_ref", f"DESIGN.md §5 {pid}")},
        "level_note": c["note"],
        "technique": c["technique"],
    })
na = []
for pid in sorted(md.NOT_APPLICABLE):
    na.append({"property_id": pid, "reason": md.NOT_APPLICABLE[pid]})
for pid in sorted(md.CLAIMS):
    if pid not in CHECKS:
        na.append({"property_id": pid, "reason": "checker not built yet (planned: " +
                   md.CLAIMS[pid]["technique"] + "); not claimed until it exists"})
m = {
    "version": 1,
    "setup_cmd": "./setup.sh",
    "hooks": {"guard": "PYUNICORN_VERIF", "enable": "none needed: the checks read /repo's sources, nothing is instrumented",
              "baseline_off_cmd": "cd /repo && /venv/bin/python -m pytest -ra -q -p no:cacheprovider --timeout=900 --continue-on-collection-errors",
              "source_commits": [], "add_only": True},
    "engines": [{"name": "pyuverif", "path": "/verif/pyuverif",
                 "serves_properties": [c["property_id"] for c in checks],
                 "kind_free_text": "repository-specific static analysers over Python ast, the Cython parse tree and the clang AST (no execution of pyunicorn)"}],
    "checks": checks,
    "notes": md.NOTES,
    "not_applicable": na,
}
json.dump(m, open(os.path.join(here, "MANIFEST.json"), "w"), indent=1)
print("checks:", [c["property_id"] for c in checks], "n/a:", [n["property_id"] for n in na])
