#!/bin/bash
# Offline setup: nothing is fetched or built; verify the tool chain the checks
# need and byte-compile the checker once (syntax check).
set -e
cd "$(dirname "${BASH_SOURCE[0]}")"
/venv/bin/python -c "import ast, Cython, networkx; print('python ok, Cython', Cython.__version__)"
command -v clang >/dev/null && clang --version | head -1
/venv/bin/python -m compileall -q pyuverif >/dev/null
mkdir -p evidence findings
echo setup ok
